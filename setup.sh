#!/bin/bash
# Build everything the checks need from files on disk only (offline).
set -e
cd "$(dirname "$0")"
export CARGO_NET_OFFLINE=true
mkdir -p .cache evidence
( cd replay && cargo build --offline -q --target-dir ../.cache/replay-target )
( cd kani && ulimit -v 16000000 && timeout 1500 cargo kani --target-dir ../.cache/kani-target > ../.cache/kani-setup.log 2>&1 || true )
python3-vt - <<'PY'
import sys; sys.path.insert(0, '.')
from mirsym.program import mirdump
mirdump(['algebra', 'structure', 'parser', 'analysis', 'cli'])
print('MIR ready')
PY
