"""C16 — field arithmetic matches Circom's semantics for all operands, never panics.

Engine: mirsym over the MIR of circom_algebra::modular_arithmetic (all functions of the file).
Inputs: a, b symbolic integers in [0, p), p one of the three real primes (and small primes
in the thorough tier).  Oracle: oracles/circom_field.py.
"""
import sys, os, time, json
import z3
from . import common
from mirsym.program import Program
from mirsym.engine import Harness, explore, Stats, Unsupported
from mirsym.values import *
from mirsym import models
from oracles import circom_field as O

PRIMES = {
    'bn254': 21888242871839275222246405745257275088548364400416034343698204186575808495617,
    'bls12_381': 52435875175126190479447740508185965837690552500527637822603658699938581184513,
    'goldilocks': 18446744069414584321,
}
SMALL = {'p3': 3, 'p5': 5, 'p7': 7, 'p11': 11, 'p257': 257}
SRC = 'circom_algebra/src/modular_arithmetic.rs'

_prog = None


def prog():
    global _prog
    if _prog is None: _prog = Program(['algebra'])
    return _prog


def pow_limit(p): return 4 * p.bit_length() + 64


class Ctx:
    """uninterpreted symbols shared by the library models and the oracle."""
    def __init__(self, bitmap): self.bitmap = bitmap
    def modinv(self, x, p): return models.MODINV(x, z3.IntVal(p))
    def modpow(self, x, e, p): return models.MODPOW(x, e, z3.IntVal(p))
    def bitop(self, name, x, y): return models.bit_op(name, x, y)


def refine_bits(op, value, p, timeout_ms=30000):
    """operands a, b in [0, p) whose exact 256-bit a|b (a&b, a^b) equals `value` (z3, bit-vectors), or None"""
    x, y = z3.Ints('x y')
    s = z3.Solver(); s.set('timeout', timeout_ms)
    X, Y = z3.Int2BV(x, 256), z3.Int2BV(y, 256)
    r = z3.BV2Int({'bit_and': X & Y, 'bit_or': X | Y, 'bit_xor': X ^ Y}[op])
    s.add(x >= 0, x < p, y >= 0, y < p, r == value)
    if s.check() != z3.sat: return None
    m = s.model(); return m[x].as_long(), m[y].as_long()


def find_fn(name):
    fns = prog().crates['algebra']
    hits = [f for n, f in fns.items() if (n == name or n.endswith('::' + name)) and 'promoted' not in n and '{closure' not in n]
    if len(hits) != 1: raise Unsupported('function %s: %d candidates in MIR of %s' % (name, len(hits), SRC))
    return hits[0]


def tasks(tier):
    ts = []
    primes = dict(PRIMES)
    if tier == 'thorough': primes.update(SMALL)
    for pn, p in primes.items():
        for op in O.BINARY + O.UNARY:
            if op in ('shift_l', 'shift_r'):
                nb = p.bit_length()
                ks = sorted(set(list(range(0, min(nb + 2, p))) + [p - c for c in range(1, min(nb + 2, p))]))
                ks = [k for k in ks if 0 <= k < p]
                chunk = 64
                for i in range(0, len(ks), chunk): ts.append({'p': pn, 'op': op, 'mode': 'small', 'ks': ks[i:i + chunk]})
                if p - nb - 2 >= nb + 2: ts.append({'p': pn, 'op': op, 'mode': 'large'})
            elif op == 'complement_256':
                nb = p.bit_length()
                # symbolic operands of every bit length <= 16 (longer symbolic operands exceed the solver's time limit: measured, 17 bits
                # already times out); thorough adds the concrete boundary values 2^k-1, 2^k, 2^k+1 for every k
                maxl = min(16, nb)
                for lo_ in range(0, maxl + 1, 8): ts.append({'p': pn, 'op': op, 'mode': 'bits', 'lo': lo_, 'hi': min(maxl, lo_ + 7)})
                if tier == 'thorough': ts.append({'p': pn, 'op': op, 'mode': 'classes', 'powers': True})
                ts.append({'p': pn, 'op': op, 'mode': 'classes'})
            else:
                ts.append({'p': pn, 'op': op, 'mode': 'full'})
        # operands outside the field (the parser does not reduce literals): panic / unbounded work only
        if tier == 'thorough' or pn == 'bn254':
            for op in O.BINARY + O.UNARY:
                if op in ('complement_256', 'shift_l', 'shift_r', 'pow'): continue
                ts.append({'p': pn, 'op': op, 'mode': 'wide'})
    return ts


def run_task(task):
    pr = prog()
    pn = task['p']; p = PRIMES.get(pn) or SMALL[pn]; op = task['op']; mode = task['mode']
    fn = find_fn(op)
    h = Harness(pr, 'algebra')
    a, b = z3.Ints('a b')
    h.inputs = {'a': a, 'b': b}
    h.pow_limit = pow_limit(p)
    h.notes = {'max_bits': p.bit_length(), 'prime_modulus': True}
    h.step_budget = 3_000_000
    stats = Stats(); viols = []; incon = []
    unary = op in O.UNARY
    # the bitwise operations have exact bit-vector semantics (operands are < 2^256 in every mode); the other operations keep & | ^ as
    # shared uninterpreted symbols (they only use them through masks)
    models.EXACT_BITS['width'] = None
    if op in ('bit_and', 'bit_or', 'bit_xor'):
        # & | ^ stay shared uninterpreted symbols (constrained by sound bounds); the value the solver gives the symbol is part of the model so
        # that a non-reproducing model can be refined with exact bit-vector semantics (main: refine_bits)
        h.inputs['bits_result'] = models.bit_op(op[4:], a, b)
    ctx = Ctx(None)

    def mk_args(av, bv):
        def mk(ex):
            args = [Ref([BigV(av)], 0)]
            if not unary: args.append(Ref([BigV(bv)], 0))
            args.append(Ref([BigV(p)], 0))
            return args
        return mk

    def check_result(ex, res, cases):
        """res: BigV | bool | Enum Result;  cases: [(cond, expectation)]"""
        for cond, exp in cases:
            cond = simp(cond)
            if cond is False: continue
            if isinstance(res, Enum):       # Result<BigInt, ArithmeticError>
                if res.var == 'Ok':
                    v = res.f[0].t
                    if exp[0] == 'Err':
                        ex.oblige(simp(z3.Not(cond)), 'semantics', '%s: undefined case must be reported as Err, got Ok' % op)
                    else:
                        ex.oblige(simp(z3.Implies(cond, zint(v) == exp[1])), 'semantics', '%s: Ok value equals Circom semantics' % op)
                        ex.oblige(simp(z3.Implies(cond, z3.And(zint(v) >= 0, zint(v) < p))), 'canonical', '%s: result in [0,p)' % op)
                else:
                    if exp[0] in ('Val', 'Bool'):
                        ex.oblige(simp(z3.Not(cond)), 'semantics', '%s: defined case must not be an error' % op)
            elif isinstance(res, BigV):
                if exp[0] == 'Err':
                    ex.oblige(simp(z3.Not(cond)), 'semantics', '%s: undefined case must be an error' % op)
                else:
                    ex.oblige(simp(z3.Implies(cond, zint(res.t) == exp[1])), 'semantics', '%s: value equals Circom semantics' % op)
                    ex.oblige(simp(z3.Implies(cond, z3.And(zint(res.t) >= 0, zint(res.t) < p))), 'canonical', '%s: result in [0,p)' % op)
            elif isinstance(res, bool) or z3.is_bool(res):
                ex.oblige(simp(z3.Implies(cond, zbool(res) == exp[1])), 'semantics', '%s: boolean equals Circom semantics' % op)
            else:
                raise Unsupported('unexpected result value ' + repr(res))

    def run(av, bv, pre_c, cases_fn, label):
        def pre(ex):
            for c in pre_c: ex.assume(c)
        def post(ex, res):
            if cases_fn is not None: check_result(ex, res, cases_fn())
        st, vs, inc = explore(h, fn, mk_args(av, bv), post=post, pre=pre, stats=stats, seed=common.seed())
        for v in vs:
            v.extra['label'] = label
            if not isinstance(av, z3.ExprRef): v.model['a'] = av
            if not isinstance(bv, z3.ExprRef): v.model['b'] = bv
        viols.extend(vs)

    field = [a >= 0, a < p, b >= 0, b < p]
    if mode == 'full':
        run(a, b, field, lambda: O.symbolic(op, a, b, p, ctx), 'full')
    elif mode == 'wide':
        h.pow_limit = pow_limit(p)
        run(a, b, [a >= 0, a < 2 ** 256, b >= 0, b < 2 ** 256], None, 'wide')
    elif mode == 'small':
        for k in task['ks']:
            run(a, k, [a >= 0, a < p], lambda k=k: [(c, e) for c, e in O.shift_cases(op, a, z3.IntVal(k), p) if simp(c) is not False], 'k=%d' % k)
    elif mode == 'large':
        nb = p.bit_length()
        run(a, b, [a >= 0, a < p, b >= nb + 2, b <= p - nb - 2], lambda: O.shift_cases(op, a, b, p)[-4:], 'large')
    elif mode == 'bits':
        lo_v = 0 if task['lo'] == 0 else 2 ** (task['lo'] - 1)          # bit lengths lo..hi
        run(a, None, [a >= lo_v, a < min(p, 2 ** task['hi'])], lambda: O.symbolic(op, a, None, p, ctx), 'bits %d..%d' % (task['lo'], task['hi']))
    elif mode == 'classes':
        vals = {0, 1, p // 2, p // 2 + 1, p - 1, p - 2}
        if task.get('powers'): vals = {2 ** k + d for k in range(0, p.bit_length() + 1) for d in (-1, 0, 1)}
        for val in sorted(vals):
            if 0 <= val < p:
                run(val, None, [], lambda val=val: O.symbolic(op, z3.IntVal(val), None, p, ctx), 'a=%d' % val)
    return {'stats': common.pack_stats(stats), 'violations': [common.pack_violation(v) for v in viols], 'p': p}


# ----------------------------------------------------------------------------- replay of a counterexample
def role_of(task, v):
    kind = v['kind']
    cls = 'any'
    m = v['model']
    if kind == 'panic' and 'by zero' in v['msg']: cls = 'divisor=0'
    if kind == 'unbounded-work': cls = 'k>limit'
    if task['op'] == 'complement_256' and m.get('a') == 0: cls = 'a=0'
    return {'function': task['op'], 'kind': kind, 'class': cls}


def native_check(nat, op, a, b, p):
    """run the real function and compare with the concrete oracle; returns (confirmed, observed, expected)"""
    line = 'op %s %d %d %d' % (op, a, b if b is not None else 0, p)
    got = nat.ask(line, timeout=10)
    if got.startswith(('PANIC', 'TIMEOUT', 'ABORT')):
        return True, got, 'a value or Err, without panic / unbounded work'
    if not (0 <= a < p and (b is None or 0 <= b < p)):
        return False, got, 'operands outside the field: only panic/unbounded work is claimed'
    exp = O.concrete(op, a, b if b is not None else 0, p)
    kind, *val = got.split(' ')
    okk = False
    if exp[0] == 'Err': okk = kind == 'Err'
    elif exp[0] == 'ErrOrVal': okk = kind == 'Err' or (kind in ('Ok', 'Val') and int(val[0]) == exp[1])
    elif exp[0] == 'Val': okk = kind in ('Ok', 'Val') and int(val[0]) == exp[1]
    elif exp[0] == 'Bool': okk = kind == 'Bool' and (val[0] == 'true') == exp[1]
    return (not okk), got, exp


def main(tier, replay=None):
    rep = common.Report('C16', tier)
    binary = common.build_replay('vr_algebra')
    nat = common.Native(binary, mem_kb=2_000_000)
    if replay:
        d = json.load(open(replay))
        conf, got, exp = native_check(nat, d['op'], d['a'], d.get('b'), d['p'])
        print('replay %s: observed=%s expected=%s -> %s' % (replay, got, exp, 'VIOLATION' if conf else 'holds'))
        return 1 if conf else 0
    from mirsym import conformance
    nvec, bad = conformance.check_bigint(nat)
    rep.validated += nvec
    if bad:
        rep.inconclusive.append('library model conformance failed: %s' % bad[:3])
        return rep.finish()
    # translator validation: the repo's own unit-test vectors through engine and native code
    rep.validated += selftest(nat, rep)
    ts = tasks(tier)
    results = common.run_tasks('specs.C16', ts)
    known = common.load_known('C16')
    seen = {}
    for r in results:
        if 'error' in r:
            rep.inconclusive.append('task %s: %s' % (r['task'], r['error'][:300])); continue
        rep.add_stats(r['stats'])
        for v in r['violations']:
            t = r['task']; p = r['p']; m = v['model']
            av = m.get('a', 0); bv = m.get('b')
            if t['op'] in O.UNARY: bv = None
            if v['kind'] == 'unbounded-work' and 'witness' in v['extra']: bv = v['extra']['witness'].get('b', bv)
            conf, got, exp = native_check(nat, t['op'], av, bv, p)
            rep.validated += 1
            role = role_of(t, v)
            key = json.dumps(role, sort_keys=True)
            if not conf and t['op'] in ('bit_and', 'bit_or', 'bit_xor') and m.get('bits_result') is not None:
                # counterexample-guided refinement: the model gave the uninterpreted a|b (a&b, a^b) a value the real operation does not
                # take on these operands; ask for operands on which the REAL bit-vector operation has exactly that value
                ref = refine_bits(t['op'], m['bits_result'], p)
                if ref is not None:
                    av, bv = ref
                    conf, got, exp = native_check(nat, t['op'], av, bv, p); rep.validated += 1
            if not conf:
                rep.nonrepro.append({'task': t, 'violation': v, 'observed': got, 'expected': str(exp)})
                continue
            if key in seen: continue
            seen[key] = 1
            k = common.match_known(known, role)
            desc = '%s: %s [a=%s b=%s p=%s] observed=%s expected=%s' % (t['op'], v['msg'], av, bv, t['p'], got, exp)
            if k: rep.known_hits.append('%s (%s)' % (k['id'], desc[:200]))
            else:
                path = rep.save_replay(role, {'property': 'C16', 'op': t['op'], 'a': av, 'b': bv, 'p': p, 'observed': got, 'expected': str(exp), 'violation': v})
                rep.violations.append(path)
                common.log('VIOLATION detail:', desc)
    if rep.nonrepro and not rep.violations:
        rep.inconclusive.append('%d solver models did not reproduce natively (uninterpreted-symbol artefacts?): e.g. %s' % (len(rep.nonrepro), json.dumps(rep.nonrepro[0], default=str)[:400]))
    nat.close()
    pr = prog()
    rep.bounds = {'operands': 'all a,b in [0,p)', 'primes': sorted(set(t['p'] for t in ts)), 'complement_256': 'operands < 2^16 plus classes {0,1,p/2,p/2+1,p-2,p-1}' if tier == 'quick' else 'operands < 2^16 plus classes {0,1,p/2,p/2+1,p-2,p-1} and every 2^k-1, 2^k, 2^k+1 below p',
                  'out_of_field': 'a,b < 2^256: panic / unbounded-work obligations only', 'pow_exponent_limit': '4*bits(p)+64', 'tasks': len(ts)}
    rep.assumptions = ['p is one of the listed primes (concrete)', 'mod_inverse/modpow/bitwise ops on Z are shared uninterpreted symbols in code and oracle (sat answers are replayed natively)',
                       'library models: ' + ', '.join(sorted(rep.models_used))[:600], 'MIR of nightly rustc is the semantics of the source', 'source hash ' + pr.hashes['algebra']]
    rep.outside = ['running time of BigInt::modpow / mod_inverse themselves', 'semantic equality for operands outside [0,p)']
    rep.extra['source'] = {SRC: pr.hashes['algebra']}
    return rep.finish()


def selftest(nat, rep):
    """the repo's unit-test inputs (modular_arithmetic::tests) through both the engine and the native code."""
    pr = prog(); n = 0
    vectors = [('sub', 2, 1, 257), ('not_eq', 1, 256, 257), ('mod_op', 17, 32, 257), ('complement_256', 1234, None, 257),
               ('lesser_eq', 0, 2, 257), ('add', 200, 100, 257), ('mul', 16, 17, 257), ('div', 5, 3, 257), ('idiv', 100, 7, 257),
               ('shift_l', 3, 4, 257), ('shift_r', 200, 3, 257), ('shift_l', 3, 255, 257), ('bit_xor', 200, 77, 257), ('pow', 3, 200, 257),
               ('lesser', 200, 3, 257), ('greater_eq', 128, 129, 257), ('prefix_sub', 5, None, 257), ('bit_and', 255, 129, 257)]
    for op, av, bv, p in vectors:
        h = Harness(pr, 'algebra'); h.notes = {'max_bits': 9}; h.pow_limit = None
        fn = find_fn(op)
        def mk(ex):
            args = [Ref([BigV(av)], 0)]
            if bv is not None: args.append(Ref([BigV(bv)], 0))
            return args + [Ref([BigV(p)], 0)]
        out = []
        st, vs, inc = explore(h, fn, mk, on_path=lambda ex, res: out.append(res))
        got = nat.ask('op %s %d %d %d' % (op, av, bv or 0, p))
        if len(out) != 1 or inc or vs:
            rep.inconclusive.append('selftest %s: engine did not produce a single result (%s %s)' % (op, inc, vs)); continue
        r = out[0]
        if isinstance(r, Enum): eng = ('Ok %d' % r.f[0].t) if r.var == 'Ok' else 'Err ' + r.f[0].var
        elif isinstance(r, BigV): eng = 'Val %d' % r.t
        else: eng = 'Bool %s' % str(r).lower()
        if eng != got:
            rep.inconclusive.append('selftest mismatch %s(%s,%s): engine %s native %s' % (op, av, bv, eng, got))
        n += 1
    return n
