"""parser_logic::parse_file from MIR around a stubbed LALRPOP parser (C04 / C01 / C02).

The generated parser itself is outside the engine's reach; its CONTRACT is what the harness supplies: it receives a string
and returns an AST or one of lalrpop_util's ParseError variants whose locations are byte offsets on character boundaries
of the string it was given.  Input: every comment-free string of <= N code points over all of Unicode (symbolic; a byte
order mark included), file id symbolic.

Decided:
  parser-input : the text handed to the parser is the source text itself (comment-free input: byte for byte), so that the
                 offsets the parser reports are offsets in the ORIGINAL file contents;
  error-label  : for every parse error the report is error-level and its primary label is exactly the span the parser
                 reported (location..location for an invalid token, the token span otherwise), in the file being parsed;
  no panic     : building the report never panics (e.g. by slicing the source inside a multi-byte character).
"""
import re, json
import z3
from . import common
from mirsym.program import Program
from mirsym.engine import Harness, explore, Stats, Unsupported
from mirsym.values import *
from mirsym.models import some, none, ok, err, as_str, utf8_width
from .irbuild import IR

_prog = None
ERRS = ['ok', 'InvalidToken', 'UnrecognizedToken', 'ExtraToken', 'UnrecognizedEOF', 'User']
# discriminants of lalrpop_util::ParseError (declaration order in lalrpop-util 0.19/0.20)
DISC = {'InvalidToken': 0, 'UnrecognizedEOF': 1, 'UnrecognizedToken': 2, 'ExtraToken': 3, 'User': 4}


def prog():
    global _prog
    if _prog is None: _prog = Program(['structure', 'parser'])
    return _prog


def tasks(tier):
    n = 3 if tier == 'quick' else 4
    return [{'kind': 'parsefile', 'n': k, 'outcome': o} for k in range(0, n + 1) for o in ERRS]


def run_task(task):
    pr = prog(); ir = IR(pr)
    h = Harness(pr, 'parser'); stats = Stats(); h.notes['render_format'] = True
    n = task['n']; outcome = task['outcome']
    chars = [z3.Int('c%d' % i) for i in range(n)]
    fid = z3.Int('file_id'); li = z3.Int('span_from'); ri = z3.Int('span_to')
    h.inputs = dict([('c%d' % i, c) for i, c in enumerate(chars)] + [('file_id', fid), ('span_from', li), ('span_to', ri)])
    base = [z3.And(c >= 0, c <= 0x10FFFF, z3.Or(c < 0xD800, c > 0xDFFF), c != 47) for c in chars]       # no `/`: no comments
    base += [fid >= 0, fid < 3, li >= 0, li <= ri, ri <= n]
    if outcome == 'InvalidToken': base.append(li < n)          # an invalid token starts at a character of the text
    R = lambda p, f: h.stub_res.append((re.compile(p), f))
    cap = {}

    def parse(ex, a, m):
        s = as_str(a[1]); cap['input'] = list(s.chars)
        if outcome == 'ok':
            return ok(ir.S('AST', meta=Opaque('meta'), compiler_version=none(), custom_gates=False, custom_gates_declared=False, includes=VecV([]), definitions=VecV([]), main_component=none()))
        ws = [utf8_width(ex, c) for c in s.chars]; offs = [0]
        for w in ws: offs.append(offs[-1] + w)
        m_ = len(s.chars)
        i = ex.concretize(li, 0, n); j = ex.concretize(ri, 0, n)
        i = min(i, m_); j = min(max(j, i), m_)
        if outcome == 'InvalidToken' and i >= m_: raise Unsupported('the parser contract cannot be honoured on a shortened text')
        l, r = offs[i], offs[j]; cap['span'] = (l, r)
        tok = lambda: Struct('()', [l, Struct('Token', [7, StrV(list(s.chars[i:j]))]), r])
        if outcome == 'InvalidToken': cap['span'] = (l, l); return err(Enum('ParseError', DISC[outcome], [l]))
        if outcome == 'UnrecognizedEOF': cap['span'] = None; return err(Enum('ParseError', DISC[outcome], [l, VecV([])]))
        if outcome == 'UnrecognizedToken': return err(Enum('ParseError', DISC[outcome], [tok(), VecV([StrV.of('";"')])]))
        if outcome == 'ExtraToken': return err(Enum('ParseError', DISC[outcome], [tok()]))
        cap['span'] = None; return err(Enum('ParseError', DISC['User'], [StrV.of('user error')]))
    R(r'(?:lang::)?ParseAstParser::parse(?:::<.*>)?', parse)
    R(r'(?:lang::)?ParseAstParser::new', lambda ex, a, m: Opaque('parser'))
    R(r'(?:parser_logic::)?format_expected', lambda ex, a, m: StrV.of(''))          # the wording of the message is not the subject
    R(r"<(?:lalrpop_util::)?ParseError<.*> as (?:std::fmt::)?Display>::fmt", lambda ex, a, m: ok(UNIT))
    R(r"<(?:lalrpop_util::)?(?:lexer::)?Token<'_> as (?:std::fmt::)?Display>::fmt|<(?:lang::)?(?:__ToTriple|Token)<.*> as (?:std::fmt::)?Display>::fmt", lambda ex, a, m: ok(UNIT))

    for ty_ in ('ParseError', 'Token'):
        h.trait_binds[(ty_, 'Display', 'fmt')] = lambda ex, a: ok(UNIT)
        h.trait_binds[(ty_, 'Debug', 'fmt')] = lambda ex, a: ok(UNIT)

    def into_report(ex, a, m):
        cap['error'] = deref(a[0]); return Opaque('report', 'parse')
    R(r'(?:errors::)?ParsingError::into_report', into_report)
    fn = pr.crates['parser']['parser_logic::parse_file']

    def entry(ex):
        cap.clear()
        return ex.call_mir(fn, [StrV(list(chars)), fid])

    def post(ex, res):
        O = ex.oblige
        got = cap.get('input')
        O(got is not None, 'parser-input', 'the parser is called')
        if got is None: return
        same = len(got) == n and all(simp(eq(a, b)) is True or (is_sym(simp(eq(a, b))) and not ex.decide(z3.Not(simp(eq(a, b))))) for a, b in zip(got, chars))
        O(same, 'parser-input', 'the text handed to the parser is the (comment-free) source text itself, so reported offsets are offsets in the original file (source of %d code points, parser got %d)' % (n, len(got)))
        if outcome == 'ok':
            O(res.var == 'Ok', 'parse-result', 'a successful parse is returned as such'); return
        O(res.var == 'Err', 'silent-parse-error', 'a parse error is reported, not swallowed (C02)')
        e = cap.get('error')
        O(e is not None, 'silent-parse-error', 'the parse error is turned into a report')
        if e is None: return
        loc = ir.get(e, 'location'); f_ = ir.get(e, 'file_id')
        O(simp(eq(f_, fid)), 'error-label', 'the parse error is located in the file being parsed')
        span = cap.get('span')
        if span is not None:
            O(simp(b_and(eq(loc.f[0], span[0]), eq(loc.f[1], span[1]))), 'error-label', 'the label of the parse error is the span the parser reported (%s, got %s..%s)' % (span, loc.f[0], loc.f[1]))
        else:
            O(simp(b_and(zint(loc.f[0]) <= zint(loc.f[1]), zint(loc.f[1]) <= sum(utf8_width(ex, c) for c in chars))), 'error-label', 'the label of the parse error lies inside the file')
    st, vs, inc = explore(h, entry, None, post=post, base=base, stats=stats, seed=common.seed())
    for v in vs: v.extra['outcome'] = outcome
    return {'stats': common.pack_stats(stats), 'violations': [common.pack_violation(v) for v in vs]}
