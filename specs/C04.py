"""C04 (kernel): locations produced by the comment stripper.  See C05.py."""
from . import C05


def run_task(task): return C05.run_task(task)


def main(tier, replay=None):
    return C05.main(tier, replay, prop='C04')
