"""C02 — no silent failure.

K (mirsym): check_compiler_version executed from MIR for every required version triple: accepted iff same
  major and (minor, patch) <= the supported (2, 1, 4), otherwise an error-level report; no pragma => warning.
Shared with C03 (the real `main` + writers from MIR): every error-level report offered to the writer is
  displayed at every --level unless its id is allowed (or it is located solely in included files), and then
  the exit status is non-zero; 'No issues found.' only when nothing was displayed.
Shared with C03's runner harness: the report of a failed lift / CFG-stage reports reach the writer.
"""
import os, sys, re, json
import z3
from . import common
from . import C03
from .irbuild import IR
from mirsym.engine import Harness, explore, Stats, Unsupported
from mirsym.values import *
from mirsym.models import some, none


def run_lift_error(task):
    """every error value that makes the lifting of a definition fail (CFGError / SSAError returned as Err) is turned into an
    ERROR-level report: the variant is a solver variable; ShadowingVariableWarning is never returned as Err (it is a finding)"""
    pr = C03.prog(); ir = IR(pr)
    h = Harness(pr, 'structure'); h.notes['render_format'] = True
    en = task['enum']; variants = pr.defs.enum_variants(en)
    d = z3.Int('variant'); h.inputs['variant'] = d
    base = [d >= min(x for _, x, _ in variants), d <= max(x for _, x, _ in variants)]
    fn = [f for n, f in pr.crates['structure'].items() if n.endswith('>::into_report') and ('control_flow_graph/errors.rs' if en == 'CFGError' else 'static_single_assignment/errors.rs') in n][0]
    cat = C03.cat_discr(pr)
    stats = Stats()

    def entry(ex):
        k = ex.concretize(d, base[0].arg(1).as_long(), base[1].arg(1).as_long())
        name, _, fields = [v for v in variants if v[1] == k][0]
        ex.notes['variant'] = name
        vals = {'name': StrV.of('x'), 'file_id': some(0), 'primary_file_id': some(0), 'secondary_file_id': some(0), 'file_location': ir.range_(1, 2), 'location': ir.range_(1, 2),
                'primary_location': ir.range_(1, 2), 'secondary_location': ir.range_(3, 4)}
        val = Enum(en, name, [vals[f] for f in fields])
        return ex.call_mir(fn, [Ref([val], 0) if fn.args and fn.args[0][1].strip().startswith('&') else val])

    def post(ex, rep_):
        name = ex.notes['variant']
        if name == 'ShadowingVariableWarning': return
        c = ir.get(rep_, 'category')
        iserr = (c.var == 'Error') or (not isinstance(c.var, str) and c.var == cat['Error'])
        ex.oblige(iserr, 'lift-error-level', 'a definition that cannot be lifted (%s::%s) is reported with an error-level report (got %s): with --level error it would otherwise be dropped silently' % (en, name, c.var), extra={'variant': name})
    st, vs, inc = explore(h, entry, None, post=post, base=base, stats=stats, seed=common.seed())
    return {'stats': common.pack_stats(stats), 'violations': [common.pack_violation(v) for v in vs]}


def run_task(task):
    if task.get('kind') == 'lift-error': return run_lift_error(task)
    if task.get('kind') == 'parsefile':
        from . import parsefile_h
        r = parsefile_h.run_task(task)
        r['violations'] = [v for v in r['violations'] if v['kind'] in ('silent-parse-error', 'panic')]
        return r
    if task.get('kind') == 'version': return run_version(task)
    if task.get('kind') == 'filestack':
        from . import C19
        r = C19.run_task(task['t'])
        r['violations'] = [v for v in r.get('violations', []) if v['kind'] in ('input-dropped', 'multiple-main')]
        return r
    return C03.run_task(task)


def run_version(task):
    pr = C03.prog()
    h = Harness(pr, 'parser')
    a, b, c = z3.Ints('maj min pat')
    h.inputs = {'maj': a, 'min': b, 'pat': c}
    R = lambda p, f: h.stub_res.append((re.compile(p), f))
    R(r'(?:std::path::)?Path::display', lambda ex, x, m: Opaque('display'))
    fn = pr.find('check_compiler_version', crate='parser')
    cvf = pr.crates['analysis'].get('config::COMPILER_VERSION') or pr.find('COMPILER_VERSION', crate='analysis')
    stats = Stats()
    cv_holder = {}

    def mk(ex):
        cv = ex.call_mir(cvf, [])
        cv_holder['cv'] = [deref(x) for x in deref(cv).f]
        req = some(Struct('()', [a, b, c])) if task['pragma'] else none()
        return [Opaque('path'), req, Ref([cv], 0)]

    def post(ex, res):
        M, N, P = cv_holder['cv']
        if not task['pragma']:
            ex.oblige(res.var == 'Ok' and len(res.f[0].items) == 1 and C03_cat(ex, res.f[0].items[0]) == 'Warning', 'no-pragma', 'a file without pragma gets exactly one warning')
            return
        supported = z3.And(a == M, z3.Or(b < N, z3.And(b == N, c <= P)))
        if res.var == 'Ok':
            ex.oblige(simp(supported), 'version-gate', 'an unsupported compiler version must be an error (accepted here)')
            ex.oblige(len(res.f[0].items) == 0, 'version-gate', 'a supported version produces no report')
        else:
            ex.oblige(simp(z3.Not(supported)), 'version-gate', 'a supported compiler version must be accepted (rejected here)')
            rep = deref(res.f[0]); rep = rep.f[0] if isinstance(rep, BoxV) else rep
            ex.oblige(C03_cat(ex, rep) == 'Error', 'version-gate', 'the version report is error-level')
    base = [v >= 0 for v in (a, b, c)] + [v < 2 ** 64 for v in (a, b, c)]
    st, vs, inc = explore(h, fn, mk, post=post, base=base, stats=stats, seed=common.seed())
    return {'stats': common.pack_stats(stats), 'violations': [common.pack_violation(v) for v in vs]}


def C03_cat(ex, rep):
    rep = deref(rep)
    from .irbuild import IR
    c = IR(ex.prog).get(rep, 'category')
    return c.var if isinstance(c.var, str) else None


def main(tier, replay=None):
    import specs.C03 as c3
    orig_tasks = c3.tasks

    def tasks(tier, prop='C02'):
        return [{'kind': 'version', 'pragma': True, 'prop': 'C02'}, {'kind': 'version', 'pragma': False, 'prop': 'C02'},
                {'kind': 'filestack', 't': {'part': 'new', 'n': 1}, 'prop': 'C02'}, {'kind': 'filestack', 't': {'part': 'new', 'n': 2}, 'prop': 'C02'},
                {'kind': 'filestack', 't': {'part': 'walk', 'n': 1, 'libs': 'none', 'first': 0, 'n0': 1, 't0': 1, 'mains': True, 'tier': 'quick'}, 'prop': 'C02'},
                {'kind': 'lift-error', 'enum': 'CFGError', 'prop': 'C02'},
                {'kind': 'parsefile', 'n': 2, 'outcome': 'InvalidToken', 'prop': 'C02'}, {'kind': 'parsefile', 'n': 2, 'outcome': 'UnrecognizedToken', 'prop': 'C02'}, {'kind': 'parsefile', 'n': 2, 'outcome': 'UnrecognizedEOF', 'prop': 'C02'}, {'kind': 'lift-error', 'enum': 'SSAError', 'prop': 'C02'}] + [t for t in orig_tasks('quick', prop) if t['kind'] != 'main' or 0 in t['codes']] + \
               ([t for t in orig_tasks('thorough', prop) if t['kind'] == 'main' and t['allow'] == 0 and sorted(t['codes']) == t['codes'] and t['codes'][0] == 0] if tier == 'thorough' else [])
    c3.tasks = tasks
    orig_scen = c3.scenario_of

    def scenario_of(t, v):
        if t.get('kind') == 'version':
            m = v['model']; return {'kind': 'version', 'req': [m.get('maj', 0), m.get('min', 0), m.get('pat', 0)] if t['pragma'] else None}
        if t.get('kind') == 'filestack' and t['t'].get('mains'): return {'kind': 'multiple-main', 'model': v['model']}
        if t.get('kind') == 'filestack': return {'kind': 'missing-input', 'n': t['t']['n']}
        if t.get('kind') == 'parsefile': return {'kind': 'lift-error', 'enum': 'ParsingError', 'variant': 'parse-error-' + t['outcome']}
        if t.get('kind') == 'lift-error': return {'kind': 'lift-error', 'enum': t['enum'], 'variant': (v.get('extra') or {}).get('variant')}
        return orig_scen(t, v)
    c3.scenario_of = scenario_of
    orig_is = c3.is_c02_violation
    c3.is_c02_violation = lambda sc, v: True if sc.get('kind') in ('version', 'missing-input', 'lift-error', 'multiple-main') else orig_is(sc, v)
    orig_role = c3.role_of
    c3.role_of = lambda sc, v, prop: {'function': 'check_compiler_version', 'kind': v['kind'], 'class': 'any'} if sc.get('kind') == 'version' else ({'function': '%s::into_report' % sc['enum'], 'kind': v['kind'], 'class': str(sc.get('variant'))} if sc.get('kind') == 'lift-error' else {'function': 'parse_files', 'kind': v['kind'], 'class': 'multiple-main'} if sc.get('kind') == 'multiple-main' else ({'function': 'FileStack::new', 'kind': v['kind'], 'class': 'missing-input'} if sc.get('kind') == 'missing-input' else orig_role(sc, v, prop)))
    # route this module's run_task through the shared pool
    orig_run = common.run_tasks
    common_run = lambda mod, ts, **kw: orig_run('specs.C02', ts, **kw)
    c3.common.run_tasks = common_run
    try:
        return c3.main(tier, replay, prop='C02')
    finally:
        c3.common.run_tasks = orig_run
