"""C19 — includes: each file once, cycles terminate, only named files reported on (partial: FileStack).

Engine: mirsym over the MIR of parser::include_logic::FileStack::{new, add_libraries, add_files, add_include,
include_library, take_next, is_user_input}.  The file system is a stub: a path is an abstract spelling,
`fs::canonicalize` maps every spelling to an arbitrary (symbolic) canonical file or fails, canonical
paths are fixed points, `is_dir`/`extension`/`file_name` answer from the spelling.

Decided (inductive steps from an arbitrary state that satisfies the representation invariant
"the stack holds canonical paths only"):
  * take_next returns None or a path that was not yet visited, marks exactly it as visited and shrinks the
    stack  => every canonical file is yielded at most once, cyclic/diamond include graphs terminate;
  * add_include keeps the invariant (pushes only canonical paths, never a visited one) and returns Err
    located at the include statement iff the include cannot be resolved (relative to the including file,
    then through the libraries);
  * FileStack::new: every `.circom` input is either pushed in canonical form (and becomes a user input)
    or produces an error report (C02: a missing input file is never dropped silently);
  * is_user_input(p) <=> p is the canonical path of a file named on the command line.
"""
import re, json, os, tempfile, shutil
import z3
from . import common
from mirsym.program import Program
from mirsym.engine import Harness, explore, Stats, Unsupported
from mirsym.values import *
from mirsym.rustdefs import simple_name as simple
from mirsym.models import some, none, ok, err, SeqIter, as_str
from mirsym.models_coll import SetV
from .irbuild import IR

_prog = None
NF = 3          # canonical files f0..f2


def prog():
    global _prog
    if _prog is None: _prog = Program(['structure', 'parser'])
    return _prog


class PathV:
    """abstract path: ('canon', k) canonical file k (python int or z3 Int) | ('raw', spelling tuple) | ('dir', ...)"""
    rust_type = 'PathBuf'
    ty = 'PathBuf'

    def __init__(self, kind, ident): self.kind = kind; self.ident = ident
    def clone(self): return PathV(self.kind, self.ident)
    def key(self): return (self.kind, str(self.ident))
    def eq_model(self, ex, other):
        if self.kind != other.kind: return False
        if self.kind == 'canon': return simp(eq(self.ident, other.ident))
        return str(self.ident) == str(other.ident)
    def __repr__(self): return 'Path<%s %s>' % (self.kind, self.ident)


def pathof(v):
    v = deref(v)
    while isinstance(v, Ref): v = deref(v)
    if not isinstance(v, PathV): raise Unsupported('expected a path, got %r' % type(v).__name__)
    return v


def install_fs(h, canon_of):
    """canon_of(ex, spelling) -> z3 Int / int in [-1, NF): -1 = cannot be resolved"""
    R = lambda p, f: h.stub_res.append((re.compile(p), f))

    def canonicalize(ex, a, m):
        p = pathof(a[0])
        if p.kind == 'canon': return ok(PathV('canon', p.ident))
        c = canon_of(ex, p.ident)
        if ex.decide(c < 0) if is_sym(c) else c < 0: return err(Opaque('ioerror'))
        return ok(PathV('canon', c))
    R(r'(?:std::fs::|fs::)?canonicalize::<.*>', canonicalize)
    R(r'<(?:std::path::)?PathBuf as (?:std::ops::)?Deref>::deref|<(?:std::path::)?PathBuf as AsRef<.*>>::as_ref|(?:std::path::)?PathBuf::as_path', lambda ex, a, m: a[0])
    R(r'<(?:std::path::)?PathBuf as Clone>::clone', lambda ex, a, m: pathof(a[0]).clone())
    R(r'<(?:std::option::)?Option<(?:std::path::)?PathBuf> as Clone>::clone', lambda ex, a, m: (lambda o: some(pathof(o.f[0]).clone()) if o.var == 'Some' else none())(deref(a[0])))
    R(r'(?:std::path::)?Path::is_dir', lambda ex, a, m: pathof(a[0]).kind == 'dir')

    def extension(ex, a, m):
        p = pathof(a[0])
        if p.kind == 'canon': return some(StrV.of('circom'))
        if p.kind == 'dir': return none()
        last = str(p.ident[-1])
        return some(StrV.of(last.rsplit('.', 1)[1])) if '.' in last.strip('.') else none()
    R(r'(?:std::path::)?Path::extension', extension)
    R(r'<&(?:std::ffi::)?OsStr as PartialEq<&str>>::eq', lambda ex, a, m: deref(deref(a[0])).concrete() == deref(deref(a[1])).concrete())
    R(r'(?:std::path::)?Path::display', lambda ex, a, m: Opaque('display', pathof(a[0])))
    R(r"<(?:std::path::)?Display<'_> as ToString>::to_string", lambda ex, a, m: StrV.of('<path>'))

    def push(ex, a, m):
        r = a[0]; p = pathof(r); s = as_str(a[1]).concrete()
        r.set(PathV('raw', (p.kind, p.ident, s))); return UNIT
    R(r'(?:std::path::)?PathBuf::push::<.*>', push)

    def pop(ex, a, m):
        r = a[0]; p = pathof(r)
        r.set(PathV('dir', ('dirof', p.kind, p.ident))); return True
    R(r'(?:std::path::)?PathBuf::pop', pop)
    R(r'(?:std::path::)?Path::join::<.*>', lambda ex, a, m: PathV('raw', (pathof(a[0]).kind, pathof(a[0]).ident, as_str(a[1]).concrete())))

    def file_name(ex, a, m):
        p = pathof(a[0])
        if p.kind == 'raw': return some(StrV.of(str(p.ident[-1]).split('/')[-1]))
        if p.kind == 'canon':
            nm = h.notes.get('file_names', {})
            k = ex.concretize(p.ident, 0, NF - 1) if is_sym(p.ident) else p.ident
            return some(StrV.of(nm.get(k, 'f%d.circom' % k)))
        return none()
    R(r'(?:std::path::)?Path::file_name', file_name)
    R(r'<(?:std::ffi::)?OsString as From<(?:std::string::)?String>>::from', lambda ex, a, m: a[0])
    R(r'<&(?:std::ffi::)?OsStr as PartialEq<(?:std::ffi::)?OsString>>::eq', lambda ex, a, m: deref(deref(a[0])).concrete() == deref(a[1]).concrete())
    R(r'(?:std::fs::|fs::)?read_dir::<.*>', lambda ex, a, m: err(Opaque('ioerror')))
    R(r'(?:errors::)?FileOsError::into_report', lambda ex, a, m: Opaque('report', 'fileos'))

    def include_err(ex, a, m):
        ex.notes.setdefault('include_errors', []).append(a[0]); return Opaque('report', 'include')
    R(r'(?:errors::)?IncludeError::into_report', include_err)
    R(r'(?:abstract_syntax_tree::)?(?:ast::)?Meta::file_location', lambda ex, a, m: Opaque('loc', deref(a[0])))


def tier_of(task): return task.get('tier', 'quick')


INCLUDES = ['x.circom', './y.circom']      # the (at most two) include statements a file may hold


def find_char(ex, args, m=None):
    s = as_str(args[0]).concrete(); c = args[1]
    i = s.find(chr(c)) if isinstance(c, int) else -1
    return some(len(s[:i].encode())) if i >= 0 else none()


def tasks(tier):
    ts = [{'part': 'take_next', 'depth': d} for d in (0, 1, 2, 3)]
    for inc in ('x.circom', './x.circom', 'sub/x.circom'):
        for libs in ('none', 'dir', 'file', 'dir+file'):
            ts.append({'part': 'add_include', 'inc': inc, 'libs': libs})
    ts += [{'part': 'new', 'n': n, 'libs': libs} for n in (1, 2) for libs in ('none', 'dir', 'file', 'dir+file')]
    # the driver loop of parse_files (take_next / parse_file / add_include) on whole include graphs
    # (files are interchangeable: quick fixes the first named input to f0; the task is split by the includes of f0)
    def split(n, libs, first):
        out = [{'part': 'walk', 'n': n, 'libs': libs, 'first': first, 'n0': 0}]
        for n0 in range(1, len(INCLUDES) + 1):
            out += [{'part': 'walk', 'n': n, 'libs': libs, 'first': first, 'n0': n0, 't0': t0} for t0 in range(-1, NF)]
        return out
    # several main components, possibly in files that were only included: the whole real parse_files
    ts += [{'part': 'walk', 'n': 1, 'libs': 'none', 'first': 0, 'n0': 1, 't0': t0, 'mains': True} for t0 in (-1, 1)]
    ts.append({'part': 'walk', 'n': 1, 'libs': 'none', 'first': -1, 'n0': 0})
    ts += split(1, 'none', 0)
    if tier == 'thorough':
        for first in range(1, NF): ts += split(1, 'none', first)
        for first in range(0, NF): ts += split(2, 'none', first) + split(1, 'dir', first)
    for t in ts: t['tier'] = tier
    return ts


def run_task(task):
    pr = prog(); ir = IR(pr); part = task['part']
    h = Harness(pr, 'parser')
    h.notes = {'file_names': {0: 'x.circom', 1: 'y.circom', 2: 'main.circom'}}
    stats = Stats(); base = []; cvars = {}

    def concrete_key(ex, x):
        # spellings that mention a canonical file are keyed by the concrete file (the same directory whatever name led to it)
        if isinstance(x, tuple): return tuple(concrete_key(ex, y) for y in x)
        if is_sym(x): return ex.concretize(x, 0, NF - 1)
        return x

    def canon_of(ex, spelling):
        if part == 'walk': spelling = concrete_key(ex, spelling)
        key = str(spelling)
        if key not in cvars:
            v = z3.Int('canon_%d' % len(cvars)); cvars[key] = v
            h.inputs['canon(%s)' % key] = v
            ex.assume(z3.And(v >= -1, v < NF))
        return cvars[key]
    install_fs(h, canon_of)
    h.stub_res.append((re.compile(r'(?:\w+::)*<impl str>::find::<char>'), lambda ex, a, m: find_char(ex, a)))
    visited = [z3.Bool('visited%d' % i) for i in range(NF)]
    h.inputs.update({'visited%d' % i: v for i, v in enumerate(visited)})

    def black(ex):
        return SetV([PathV('canon', i) for i in range(NF) if ex.decide(visited[i])])

    def mk_stack(ex, depth):
        ents = []
        for j in range(depth):
            v = z3.Int('stack%d' % j); h.inputs['stack%d' % j] = v; ex.assume(z3.And(v >= 0, v < NF))
            ents.append(PathV('canon', v))
        return VecV(ents)

    def fstack(ex, stack, libs=(), loc=None):
        return ir.S('FileStack', current_location=some(loc) if loc is not None else none(), black_paths=black(ex), user_inputs=SetV([]),
                    libraries=VecV([ir.S('Library', dir=d, path=p) for d, p in libs]), stack=stack)

    if part == 'take_next':
        fn = pr.method(None, 'FileStack', 'take_next')

        def entry(ex):
            st = fstack(ex, mk_stack(ex, task['depth']))
            ex.notes['before'] = {'stack': [x.ident for x in ir.get(st, 'stack').items], 'black': [x.ident for x in ir.get(st, 'black_paths').items]}
            cell = [st]
            return ex.call_mir(fn, [Ref(cell, 0)]), cell[0]

        def post(ex, res):
            r, st = res; before = ex.notes['before']
            black_after = [x.ident for x in ir.get(st, 'black_paths').items]; stack_after = ir.get(st, 'stack').items
            inb = lambda ident, lst: simp(b_or(*[eq(ident, y) for y in lst]))
            if r.var == 'None':
                ex.oblige(len(stack_after) == 0, 'take_next', 'None is returned only when the stack is exhausted')
                for s in before['stack']: ex.oblige(inb(s, before['black']), 'take_next', 'a path skipped by take_next had been visited before')
                ex.oblige(len(black_after) == len(before['black']), 'take_next', 'visited set unchanged when nothing is yielded')
            else:
                p = pathof(r.f[0])
                ex.oblige(p.kind == 'canon', 'canonical', 'take_next yields a canonical path')
                ex.oblige(simp(b_not(inb(p.ident, before['black']))), 'once', 'take_next never yields a path that was already visited')
                ex.oblige(inb(p.ident, black_after), 'once', 'the yielded path is marked visited')
                ex.oblige(len(black_after) == len(before['black']) + 1, 'once', 'exactly the yielded path is added to the visited set')
                ex.oblige(len(stack_after) < len(before['stack']), 'terminates', 'the stack shrinks with every yielded path (measure decreases)')
                loc = ir.get(st, 'current_location')
                ex.oblige(loc.var == 'Some' and pathof(loc.f[0]).kind == 'dir', 'location', 'includes of the yielded file are resolved relative to its directory')
        st_, vs, inc = explore(h, entry, None, post=post, stats=stats, seed=common.seed())

    elif part == 'add_include':
        fn = pr.method(None, 'FileStack', 'add_include')
        inc_path = task['inc']

        def entry(ex):
            libs = []
            if 'dir' in task['libs']: libs.append((True, PathV('dir', ('libdir',))))
            if 'file' in task['libs']: libs.append((False, PathV('canon', 0)))
            cur = z3.Int('current'); h.inputs['current'] = cur; ex.assume(z3.And(cur >= 0, cur < NF))
            loc = PathV('dir', ('dirof', 'canon', cur))
            st = fstack(ex, mk_stack(ex, 1), libs, loc)
            ex.notes['before'] = {'n': 1, 'black': [x.ident for x in ir.get(st, 'black_paths').items]}
            ex.notes['include_errors'] = []
            include = ir.S('Include', meta=Struct('ast::Meta', [0, 77, 78, ir.range_(77, 78), some(0), Opaque('ci'), Opaque('tk'), Opaque('mk')]), path=StrV.of(inc_path))
            cell = [st]
            return ex.call_mir(fn, [Ref(cell, 0), Ref([include], 0)]), cell[0]

        def post(ex, res):
            r, st = res; before = ex.notes['before']
            stack_after = ir.get(st, 'stack').items
            pushed = stack_after[before['n']:]
            ex.oblige(len(pushed) <= 1, 'push', 'an include pushes at most one path')
            for p in pushed:
                p = pathof(p)
                ex.oblige(p.kind == 'canon', 'canonical', 'add_include pushes canonical paths only (otherwise the same file can be read twice under two spellings)',
                          extra={'pushed': repr(p)})
            if r.var == 'Err':
                ex.oblige(len(pushed) == 0, 'push', 'a failed include pushes nothing')
                errs = ex.notes['include_errors']
                ex.oblige(len(errs) == 1 and deref(ir.get(errs[0], 'file_location')).f[0] == 77, 'error-location', 'the include error is located at the include statement')
                # it may only fail if no resolution exists: local spelling unresolvable, and no library provides it
                local = [v for k, v in cvars.items() if "'dirof'" not in k or True]
            else:
                ex.oblige(ir.get(r, 'x') if False else True, 'ok', 'ok')
        st_, vs, inc = explore(h, entry, None, post=post, stats=stats, seed=common.seed())

    elif part == 'walk':
        fnew = pr.method(None, 'FileStack', 'new'); take = pr.method(None, 'FileStack', 'take_next'); n = task['n']
        pfile = pr.crates['parser']['parse_file']
        ninc = [z3.Int('includes_of_f%d' % k) for k in range(NF)]
        for k, v in enumerate(ninc): h.inputs['includes_of_f%d' % k] = v; base.append(z3.And(v >= 0, v <= len(INCLUDES)))
        R = lambda p, f: h.stub_res.append((re.compile(p), f))

        mains = [z3.Bool('main_in_f%d' % k) for k in range(NF)]
        if task.get('mains'):
            for k, v in enumerate(mains): h.inputs['main_in_f%d' % k] = v
            pfiles = pr.crates['parser']['parse_files']
            R(r'(?:\w+::)*FileLibrary::new', lambda ex, a, m: Opaque('filelibrary'))
            R(r'(?:\w+::)*ProgramArchive::new', lambda ex, a, m: err(Struct('()', [a[0], VecV([])])))
            R(r'(?:errors::)?AnonymousComponentError::new', lambda ex, a, m: Opaque('anonerr'))

        def open_file(ex, a, m):
            p = pathof(a[0])
            if p.kind != 'canon': ex.oblige(False, 'canonical', 'a file is opened under a canonical path'); return err(BoxV(Opaque('report', 'fileos')))
            k = ex.concretize(p.ident, 0, NF - 1) if is_sym(p.ident) else p.ident
            ex.notes['reads'].append(k)
            return ok(Struct('()', [StrV.of('path%d' % k), StrV.of('content%d' % k)]))
        R(r'(?:parser::)?open_file', open_file)

        def add_file(ex, a, m):
            k = int(as_str(a[2]).concrete()[len('content'):]); iu = a[3]
            ex.notes['added'].append((k, ex.decide(iu) if is_sym(iu) else iu)); return k
        R(r'(?:\w+::)*FileLibrary::add_file', add_file)

        def parse_stub(ex, a, m):
            k = int(as_str(a[0]).concrete()[len('content'):])
            cnt = ex.concretize(ninc[k], 0, len(INCLUDES))
            incs = [ir.S('Include', meta=Struct('ast::Meta', [0, 100 * k + j, 100 * k + j + 1, ir.range_(100 * k + j, 100 * k + j + 1), some(k), Opaque('ci'), Opaque('tk'), Opaque('mk')]), path=StrV.of(INCLUDES[j])) for j in range(cnt)]
            ex.notes['incl'][k] = cnt
            has_main = bool(task.get('mains')) and ex.decide(mains[k])
            if has_main: ex.notes.setdefault('mains', []).append(k)
            mmeta = Struct('ast::Meta', [0, 500 + k, 510 + k, ir.range_(500 + k, 510 + k), some(k), Opaque('ci'), Opaque('tk'), Opaque('mk')])
            mc = some(Struct('()', [VecV([]), ir.E('ast::Expression', 'Call', meta=mmeta, id=StrV.of('T%d' % k), args=VecV([]))])) if has_main else none()
            return ok(ir.S('AST', meta=Opaque('meta'), compiler_version=none(), custom_gates=False, custom_gates_declared=False, includes=VecV(incs), definitions=VecV([]), main_component=mc))
        R(r'(?:parser_logic::)parse_file', parse_stub)
        # the version check of a file may fail (unsupported pragma): its includes are followed all the same
        verr = [z3.Bool('version_error_f%d' % k) for k in range(NF)]
        for k, v in enumerate(verr):
            h.inputs['version_error_f%d' % k] = v
            # the version check of the first named file may fail in every task; of the other files only in the thorough single-input tasks
            if k != max(task['first'], 0) and not (tier_of(task) == 'thorough' and task['n'] == 1 and task['libs'] == 'none'): base.append(z3.Not(v))

        def version_stub(ex, a, m):
            k = ex.notes['reads'][-1]
            if ex.decide(verr[k]): return err(BoxV(Opaque('report', 'version')))
            return ok(VecV([]))
        R(r'(?:parser::)?check_compiler_version', version_stub)

        def entry(ex):
            ex.notes.update(reads=[], added=[], incl={}, include_errors=[], iterations=0)
            paths = VecV([PathV('raw', ('cwd', '', 'in%d.circom' % i)) for i in range(n)])
            libs = [PathV('dir', ('libdir',))] if task['libs'] == 'dir' else []
            c0 = canon_of(ex, ('cwd', '', 'in0.circom')); ex.assume(c0 == task['first'])
            if task.get('mains'): ex.assume(z3.And(ninc[1] <= 1, ninc[2] == 0))       # the include graph is not the subject of these tasks
            if task['first'] >= 0:
                ex.assume(ninc[task['first']] == task['n0'])
                if task['n0'] >= 1: ex.assume(canon_of(ex, ('dir', ('dirof', 'canon', task['first']), INCLUDES[0])) == task['t0'])
            reports = VecV([])
            if task.get('mains'):
                res = ex.call_mir(pfiles, [SliceV(paths, 0, n), SliceV(VecV(libs), 0, len(libs)), Ref([Struct('()', [2, 1, 4])], 0)])
                ex.notes['iterations'] = len(ex.notes['reads'])
                return None, deref(res).f[1]
            st = ex.call_mir(fnew, [SliceV(paths, 0, n), SliceV(VecV(libs), 0, len(libs)), Ref([reports], 0)])
            cell = [st]; flib = [Opaque('filelibrary')]; ver = [Struct('()', [2, 1, 4])]
            while True:
                r = ex.call_mir(take, [Ref(cell, 0)])
                if r.var == 'None': break
                ex.notes['iterations'] += 1
                if ex.notes['iterations'] > NF + 1:
                    ex.oblige(False, 'terminates', 'the driver loop yields more files than exist'); break
                pr_ = ex.call_mir(pfile, [Ref([r.f[0]], 0), Ref(cell, 0), Ref(flib, 0), Ref(ver, 0)])
                if pr_.var == 'Ok': ex.notes.setdefault('warn', []).append(len(pr_.f[0].f[2].items))
            return cell[0], reports

        def post(ex, res):
            st, reports = res; N = ex.notes
            reads = N['reads']
            ex.oblige(len(set(reads)) == len(reads), 'once', 'every file is read and parsed once (reads in order: %s)' % reads, extra={'reads': reads})
            ex.oblige(N['iterations'] <= NF, 'terminates', 'the driver loop ends after at most one iteration per file (%d iterations)' % N['iterations'])
            # oracle: closure of the named inputs under resolvable includes, from the (now decided) abstract file system
            val = lambda key: (ex.concretize(cvars[key], -1, NF - 1) if key in cvars else None)
            inputs = [val(str(('cwd', '', 'in%d.circom' % i))) for i in range(n)]
            named = set(c for c in inputs if c is not None and c >= 0)
            def resolve(k, j):
                sp = INCLUDES[j]
                c = val(str(('dir', ('dirof', 'canon', k), sp)))
                if c is not None and c >= 0: return c
                if task['libs'] == 'dir' and not sp.startswith('.'):
                    c = val(str(('dir', ('libdir',), sp)))
                    if c is not None and c >= 0: return c
                return None
            want = set(); work = list(named); unresolved = 0
            while work:
                k = work.pop()
                if k in want: continue
                want.add(k)
                if k not in N['incl']: continue          # never parsed: reported below
                for j in range(N['incl'][k]):
                    t = resolve(k, j)
                    if t is None: unresolved += 1
                    else: work.append(t)
            ex.oblige(set(reads) == want, 'reachable', 'exactly the files reachable from the named inputs through resolvable includes are parsed (parsed %s, reachable %s)' % (sorted(set(reads)), sorted(want)), extra={'reads': reads})
            nerr = len(N['include_errors'])
            ex.oblige(nerr == unresolved, 'include-error', 'one error per include that cannot be resolved (%d errors, %d unresolvable includes)' % (nerr, unresolved))
            if task.get('mains'):
                nm = len(N.get('mains', []))
                user_ids = set(k for k, iu in N['added'] if iu)
                shown = []
                for r_ in reports.items:
                    r_ = deref(r_)
                    if isinstance(r_, Struct) and simple(r_.ty) == 'Report' and ir.get(r_, 'code').var == 'MultipleMainInComponent':
                        files = [deref(x) for x in ir.get(r_, 'primary_file_ids').items]
                        cat_ = ir.get(r_, 'category').var
                        passes = (not files) or any(f in user_ids for f in files)
                        shown.append((cat_, files, passes))
                ex.oblige((nm >= 2) == bool(shown), 'multiple-main', 'several main components (here %d, in files %s) are reported, and only then (reports %s)' % (nm, N.get('mains', []), shown))
                if nm >= 2 and shown:
                    ex.oblige(any(c in ('Error', 2) or str(c) == 'Error' for c, f_, p_ in shown) and any(p_ for c, f_, p_ in shown), 'multiple-main',
                              'the multiple-main error is an error-level report that passes the file filter (location-less or located in a named file): mains in files %s, named files %s, reports %s' % (N.get('mains', []), sorted(user_ids), shown), extra={'reads': reads})
            for k, iu in N['added']:
                ex.oblige(iu == (k in named), 'user-input', 'file f%d is classified as %s' % (k, 'a named input' if k in named else 'only included'), extra={'reads': reads})
        st_, vs, inc = explore(h, entry, None, post=post, base=base, stats=stats, seed=common.seed())

    else:   # FileStack::new
        fn = pr.method(None, 'FileStack', 'new'); n = task['n']
        isu = pr.method(None, 'FileStack', 'is_user_input')

        def entry(ex):
            paths = VecV([PathV('raw', ('cwd', '', 'in%d.circom' % i)) for i in range(n)])
            libs = []
            if 'dir' in task.get('libs', ''): libs.append(PathV('dir', ('libdir',)))
            if 'file' in task.get('libs', ''): libs.append(PathV('raw', ('cwd', '', 'lib.circom')))
            ex.notes['inputs'] = [p.ident for p in paths.items]; ex.notes['nlibfiles'] = sum(1 for l in libs if l.kind == 'raw')
            reports = VecV([])
            st = ex.call_mir(fn, [SliceV(paths, 0, n), SliceV(VecV(libs), 0, len(libs)), Ref([reports], 0)])
            return st, reports

        def post(ex, res):
            st, reports = res
            stack = ir.get(st, 'stack').items
            nerr = len(reports.items)
            for p in stack: ex.oblige(pathof(p).kind == 'canon', 'canonical', 'inputs are pushed in canonical form')
            canon_in = [canon_of(ex, i) for i in ex.notes['inputs']]
            resolvable = [c for c in canon_in if not ex.decide(c < 0)]
            # a library file that cannot be resolved is reported too; it is never an input
            libs_failed = ex.notes['nlibfiles'] and ex.decide(canon_of(ex, ('cwd', '', 'lib.circom')) < 0)
            ex.oblige(len(resolvable) + nerr == n + (1 if libs_failed else 0), 'input-dropped', 'every .circom input that cannot be read is reported (%d readable, %d reports, %d inputs)' % (len(resolvable), nerr, n))
            ex.oblige(len(stack) == len(resolvable) and all(ex.decide(eq(pathof(p).ident, c)) is True or not is_sym(eq(pathof(p).ident, c)) and eq(pathof(p).ident, c) for p, c in zip(stack, resolvable)), 'stack-is-inputs',
                      'the initial stack is exactly the readable named inputs (stack %d, readable inputs %d): nothing else is parsed unless it is included' % (len(stack), len(resolvable)))
            for k in range(NF):
                named = simp(b_or(*[eq(c, k) for c in resolvable]))
                got = ex.call_mir(isu, [Ref([st], 0), Ref([PathV('canon', k)], 0)])
                got = ex.decide(got) if is_sym(got) else got
                ex.oblige(simp(eq(zbool(named) if is_sym(named) else named, got)) if is_sym(named) else named == got, 'user-input', 'is_user_input(f%d) iff f%d is the canonical path of a named input' % (k, k))
        st_, vs, inc = explore(h, entry, None, post=post, stats=stats, seed=common.seed())
    for v in vs: v.extra['task'] = task
    return {'stats': common.pack_stats(stats), 'violations': [common.pack_violation(v) for v in vs]}


# ----------------------------------------------------------------------------- replay on a real directory tree
def confirm(task, v):
    """build a real directory, run the real pipeline with RUST_LOG=debug and count how often each file is read"""
    from . import realbin
    d = tempfile.mkdtemp(prefix='vc19_', dir=common.CACHE)
    try:
        part = task['part']
        if part == 'add_include' and 'dir' in task['libs'] and not task['inc'].startswith('.'):
            os.makedirs(os.path.join(d, 'lib', os.path.dirname(task['inc'])), exist_ok=True)
            body = 'pragma circom 2.0.0;\ntemplate X() { signal input a; signal output b; b <== a; }\n'
            open(os.path.join(d, 'lib', task['inc']), 'w').write(body)
            # the same file reached by its local spelling first, then through the library directory
            main = 'pragma circom 2.0.0;\ninclude "lib/%s";\ninclude "%s";\ntemplate M() { signal input a; signal output b; b <== a; }\n' % (task['inc'], task['inc'])
            open(os.path.join(d, 'main.circom'), 'w').write(main)
            env = dict(os.environ, RUST_LOG='circomspect_parser=debug')
            import subprocess
            r = subprocess.run([realbin.binary(), 'main.circom', '-L', 'lib'], cwd=d, env=env, capture_output=True, text=True, timeout=60)
            reads = [l for l in (r.stdout + r.stderr).split('\n') if 'reading file' in l and task['inc'].split('/')[-1] in l]
            return len(reads) != 1, {'reads of %s' % task['inc']: len(reads)}, {'reads': 1}
        if part == 'new' and v is not None and v['kind'] in ('stack-is-inputs', 'user-input') and 'file' in task.get('libs', ''):
            # a library given as a file whose definitions would produce findings; the named file only includes it
            os.makedirs(os.path.join(d, 'libs'))
            open(os.path.join(d, 'libs', 'bits.circom'), 'w').write('pragma circom 2.0.0;\ntemplate IsNonZero() { signal input a; signal output b; var unused = 3; b <-- a >> 1; }\n')
            open(os.path.join(d, 'main.circom'), 'w').write('pragma circom 2.0.0;\ninclude "bits.circom";\ntemplate M() { signal input a; signal output b; component c = IsNonZero(); c.a <== a; b <== c.b; }\n')
            rc, out = realbin.run(['main.circom', '-L', 'libs/bits.circom'], d)
            return rc != 0 or 'bits.circom' in out, {'exit': rc, 'mentions bits.circom': 'bits.circom' in out, 'out': out[-200:]}, {'exit': 0, 'findings in the library file': False}
        if part == 'walk':
            # the abstract file system of the model realised with symbolic links: canonicalize() of a link is its target
            m = v['model']; import subprocess
            for k in range(NF):
                os.makedirs(os.path.join(d, 'd%d' % k))
                nk = m.get('includes_of_f%d' % k, 0)
                body = ('pragma circom 9.9.9;\n' if m.get('version_error_f%d' % k) else 'pragma circom 2.0.0;\n') + ''.join('include "%s";\n' % INCLUDES[j] for j in range(nk)) + 'template T%d() { signal input a; signal output b; b <== a; }\n' % k
                open(os.path.join(d, 'd%d' % k, 'f%d.circom' % k), 'w').write(body)
            def target(key):
                t = m.get('canon(%s)' % key)
                return t if isinstance(t, int) and t >= 0 else None
            for k in range(NF):
                for sp in INCLUDES:
                    t = target(str(('dir', ('dirof', 'canon', k), sp)))
                    if t is not None: os.symlink(os.path.join(d, 'd%d' % t, 'f%d.circom' % t), os.path.join(d, 'd%d' % k, sp.replace('./', '')))
            args = []
            for i in range(task['n']):
                t = target(str(('cwd', '', 'in%d.circom' % i)))
                if t is not None: os.symlink(os.path.join(d, 'd%d' % t, 'f%d.circom' % t), os.path.join(d, 'in%d.circom' % i))
                args.append('in%d.circom' % i)
            env = dict(os.environ, RUST_LOG='circomspect_parser=debug')
            r = subprocess.run([realbin.binary()] + args, cwd=d, env=env, capture_output=True, text=True, timeout=60)
            out = r.stdout + r.stderr
            reads = [int(re.search(r'f(\d)\.circom', l).group(1)) for l in out.split('\n') if 'reading file' in l and re.search(r'f(\d)\.circom', l)]
            analysed = sorted(set(int(x) for x in re.findall(r"analyzing template 'T(\d)'", out)))
            want = (v.get('extra') or {}).get('reads')
            dup = len(set(reads)) != len(reads)
            obs = {'reads': reads, 'analysed templates': analysed, 'exit': r.returncode}
            if v['kind'] in ('once', 'terminates'): return (dup or 'panicked' in out), obs, {'each file read once': True}
            mm = re.search(r'reachable (\[[0-9, ]*\])\)', v.get('msg', ''))
            if v['kind'] == 'reachable' and mm:
                import ast as _ast
                want = sorted(_ast.literal_eval(mm.group(1)))
                return sorted(set(reads)) != want, obs, {'files read': want}
            return None, obs, None
        if part == 'new':
            rc, out = realbin.run([os.path.join(d, 'missing.circom')], d)
            return rc != 1 or 'error' not in out, {'exit': rc, 'out': out[-200:]}, {'exit': 1, 'an error': True}
        return None, 'engine-level only', None
    finally:
        shutil.rmtree(d, ignore_errors=True)


def main(tier, replay=None):
    rep = common.Report('C19', tier)
    if replay:
        d = json.load(open(replay)); bad, got, exp = confirm(d['task'], d['violation'])
        print('replay: observed=%s expected=%s -> %s' % (got, exp, 'VIOLATION' if bad else 'holds')); return 1 if bad else 0
    bad, got, exp = confirm({'part': 'new', 'n': 1}, None); rep.validated += 1
    if bad: rep.inconclusive.append('fixed scenario (missing input file): real binary %s, expected %s' % (got, exp))
    # fixed scenario for the driver loop: a diamond with a cycle, realised with symbolic links, through the real binary
    m = {'includes_of_f0': 2, 'includes_of_f1': 1, 'includes_of_f2': 1, "canon(('cwd', '', 'in0.circom'))": 0,
         "canon(('dir', ('dirof', 'canon', 0), 'x.circom'))": 1, "canon(('dir', ('dirof', 'canon', 0), './y.circom'))": 2,
         "canon(('dir', ('dirof', 'canon', 1), 'x.circom'))": 2, "canon(('dir', ('dirof', 'canon', 2), 'x.circom'))": 0}
    bad, got, exp = confirm({'part': 'walk', 'n': 1, 'libs': 'none'}, {'model': m, 'kind': 'once', 'extra': {}}); rep.validated += 1
    if bad or sorted(got.get('reads', [])) != [0, 1, 2]: rep.inconclusive.append('fixed scenario (diamond with a cycle): real binary %s, expected every file read once' % (got,))
    ts = tasks(tier)
    results = common.run_tasks('specs.C19', ts)
    known = common.load_known('C19'); seen = {}
    for r in results:
        if 'error' in r:
            rep.inconclusive.append('task %s: %s' % (r['task'], r['error'][:500])); continue
        rep.add_stats(r['stats'])
        for v in r['violations']:
            t = r['task']
            cls = 'library-dir-spelling' if (v['kind'] == 'canonical' and t['part'] == 'add_include') else 'any'
            role = {'function': 'FileStack::' + t['part'], 'kind': v['kind'], 'class': cls}
            key = json.dumps(role, sort_keys=True)
            if key in seen: continue
            bad, got, exp = confirm(t, v); rep.validated += 1
            if bad is False:
                rep.nonrepro.append({'task': t, 'violation': v, 'observed': got}); continue
            seen[key] = 1
            k = common.match_known(known, role)
            desc = '%s [%s] model %s observed=%s expected=%s' % (v['msg'], t, v['model'], got, exp)
            if k: rep.known_hits.append('%s (%s)' % (k['id'], desc[:300]))
            else:
                rep.violations.append(rep.save_replay(role, {'property': 'C19', 'task': t, 'violation': v, 'observed': got, 'expected': exp, 'native_replay': bad is True}))
                common.log('VIOLATION detail:', desc)
    if rep.nonrepro and not rep.violations:
        rep.inconclusive.append('%d counterexamples did not reproduce with the real binary, e.g. %s' % (len(rep.nonrepro), json.dumps(rep.nonrepro[0], default=str)[:400]))
    pr = prog()
    rep.bounds = {'driver loop': 'whole include graphs over %d files: <= 2 include statements per file (`x.circom`, `./y.circom`), every resolution of every spelling (or none), 1 named input (thorough: 2 inputs, a library directory)' % NF,
                  'files': '%d canonical files, arbitrary visited set, stack depth <= 3 with arbitrary (canonical) contents' % NF,
                  'includes': 'include spellings x.circom, ./x.circom, sub/x.circom; libraries none / a directory / a file / both; canonicalize() arbitrary per spelling'}
    rep.stubs = ['driver loop: open_file (records the read), FileLibrary::add_file (records the user-input flag), parser_logic::parse_file (returns an AST with the include statements of that file), check_compiler_version', 'fs::canonicalize (arbitrary partial map from spellings to canonical files, identity on canonical paths)', 'PathBuf::{push,pop}, Path::{join,is_dir,extension,file_name,display}', 'fs::read_dir (fails)',
                 'FileOsError/IncludeError::into_report (argument captured)']
    rep.assumptions = ['representation invariant assumed for the pre-state: the stack holds canonical paths only (shown to be preserved by every push)', 'source hash ' + pr.hashes['parser']]
    rep.outside = ['real path spelling, symlinks, directories given as inputs', 'the part of parse_files after the loop (program archive, desugaring)', 'what is reported for definitions of included files (C03 filter clause)']
    return rep.finish()
