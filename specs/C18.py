"""C18 — tuples and anonymous components are desugared completely (partial: the tuple half).

Engine: mirsym over the MIR of parser::syntax_sugar_remover::{remove_tuples_from_statement,
remove_tuple_from_expression, separate_tuple_for_log_call} and of the ContainsExpression traversals
(contains_tuple / contains_anonymous_component) in parser::syntax_sugar_traits.

Input: every statement kind of the AST with expression slots filled from a family of expression shapes
(plain, tuple at the top, tuple nested under an infix / prefix / ternary / call / inline array / array
index / parallel operator; likewise an anonymous component); the (statement, slot, shape) index is a solver
variable - one path per combination.

Decided:
  * remove_tuples_from_statement returns Err, or a statement in which an independent walker finds no tuple
    anywhere ("every template handed to the analysis is free of tuples ... wherever they occur");
  * contains_tuple / contains_anonymous_component answer true iff the independent walker finds one
    (functions containing them are rejected wherever they occur).
Outside: anonymous-component expansion (needs template signatures), and that the expansion behaves as the
hand-written one.
"""
import re, json, os, tempfile, shutil, itertools
import z3
from . import common
from mirsym.program import Program
from mirsym.engine import Harness, explore, Stats, Unsupported
from mirsym.values import *
from mirsym.models import some, none, ok, err
from .irbuild import IR
from mirsym.models_coll import MapV

_prog = None
X = 'ast::Expression'; S = 'ast::Statement'


def prog():
    global _prog
    if _prog is None: _prog = Program(['structure', 'parser'])
    return _prog


class AST:
    def __init__(self, ir): self.ir = ir; self.n = 0
    def meta(self):
        self.n += 1; i = self.n
        return Struct('ast::Meta', [i, i, i, self.ir.range_(i, i), some(0), Opaque('ci'), Opaque('tk'), Opaque('mk')])
    def var(self, name='a', access=()): return self.ir.E(X, 'Variable', meta=self.meta(), name=StrV.of(name), access=VecV(list(access)))
    def num(self, v=1): return Enum(X, 'Number', [self.meta(), BigV(v)])
    def tuple(self, vals=None): return self.ir.E(X, 'Tuple', meta=self.meta(), values=VecV(vals if vals is not None else [self.var('a'), self.var('b')]))
    def anon(self, signals=None, names=None, tid='C'):
        return self.ir.E(X, 'AnonymousComponent', meta=self.meta(), id=StrV.of(tid), is_parallel=False, params=VecV([]), signals=VecV(signals if signals is not None else [self.var('a')]), names=names if names is not None else none())
    def infix(self, l, r): return self.ir.E(X, 'InfixOp', meta=self.meta(), lhe=BoxV(l), infix_op=Enum('ast::ExpressionInfixOpcode', 'Add'), rhe=BoxV(r))
    def prefix(self, e): return self.ir.E(X, 'PrefixOp', meta=self.meta(), prefix_op=Enum('ast::ExpressionPrefixOpcode', 'Sub'), rhe=BoxV(e))
    def switch(self, c, t, f): return self.ir.E(X, 'InlineSwitchOp', meta=self.meta(), cond=BoxV(c), if_true=BoxV(t), if_false=BoxV(f))
    def call(self, args): return self.ir.E(X, 'Call', meta=self.meta(), id=StrV.of('f'), args=VecV(list(args)))
    def arr(self, vals): return self.ir.E(X, 'ArrayInLine', meta=self.meta(), values=VecV(list(vals)))
    def par(self, e): return self.ir.E(X, 'ParallelOp', meta=self.meta(), rhe=BoxV(e))
    def idx(self, e): return Enum('ast::Access', 'ArrayAccess', [e])
    def comp(self, name): return Enum('ast::Access', 'ComponentAccess', [StrV.of(name)])


EXPR_SHAPES = ['plain', 'top', 'infix_l', 'infix_r', 'prefix', 'switch_c', 'switch_t', 'switch_f', 'call', 'array', 'index', 'parallel', 'nested_tuple', 'index_2nd', 'comp_index', 'index_comp']
STMT_SLOTS = ['return', 'assert', 'log', 'ceq_l', 'ceq_r', 'subst_rhe', 'subst_idx', 'decl_dim', 'if_cond', 'while_cond', 'multi_l', 'multi_r', 'multi_both', 'block', 'init', 'if_body', 'else_body', 'while_body']


def mk_expr(b, shape, sugar):
    t = (b.tuple if sugar == 'tuple' else b.anon)
    if shape == 'plain': return b.infix(b.var('a'), b.num(2))
    if shape == 'top': return t()
    if shape == 'infix_l': return b.infix(t(), b.var('a'))
    if shape == 'infix_r': return b.infix(b.var('a'), t())
    if shape == 'prefix': return b.prefix(t())
    if shape == 'switch_c': return b.switch(t(), b.num(1), b.num(2))
    if shape == 'switch_t': return b.switch(b.var('a'), t(), b.num(2))
    if shape == 'switch_f': return b.switch(b.var('a'), b.num(1), t())
    if shape == 'call': return b.call([b.var('a'), t()])
    if shape == 'array': return b.arr([b.num(1), t()])
    if shape == 'index': return b.var('v', [b.idx(t())])
    if shape == 'index_2nd': return b.var('m', [b.idx(b.num(0)), b.idx(t())])
    if shape == 'comp_index': return b.var('c', [b.comp('o'), b.idx(t())])
    if shape == 'index_comp': return b.var('d', [b.idx(t()), b.comp('o')])
    if shape == 'parallel': return b.par(t())
    if shape == 'nested_tuple': return b.tuple([b.var('a'), t()])
    raise KeyError(shape)


def mk_stmt(ir, b, slot, e):
    E = ir.E; plain = lambda: b.var('a')
    leaf = lambda ex_: E(S, 'Return', meta=b.meta(), value=ex_)
    blk = lambda stmts: E(S, 'Block', meta=b.meta(), stmts=VecV(list(stmts)))
    assign = Enum('ast::AssignOp', 'AssignVar')
    if slot == 'return': return leaf(e)
    if slot == 'assert': return E(S, 'Assert', meta=b.meta(), arg=e)
    if slot == 'log': return E(S, 'LogCall', meta=b.meta(), args=VecV([Enum('ast::LogArgument', 'LogStr', [StrV.of('x')]), Enum('ast::LogArgument', 'LogExp', [e])]))
    if slot == 'ceq_l': return E(S, 'ConstraintEquality', meta=b.meta(), lhe=e, rhe=plain())
    if slot == 'ceq_r': return E(S, 'ConstraintEquality', meta=b.meta(), lhe=plain(), rhe=e)
    if slot == 'subst_rhe': return E(S, 'Substitution', meta=b.meta(), var=StrV.of('x'), access=VecV([]), op=assign, rhe=e)
    if slot == 'subst_idx': return E(S, 'Substitution', meta=b.meta(), var=StrV.of('x'), access=VecV([b.idx(e)]), op=assign, rhe=plain())
    if slot == 'decl_dim': return E(S, 'Declaration', meta=b.meta(), xtype=Enum('ast::VariableType', 'Var'), name=StrV.of('x'), dimensions=VecV([b.num(2), e]), is_constant=True)
    if slot == 'if_cond': return E(S, 'IfThenElse', meta=b.meta(), cond=e, if_case=BoxV(blk([])), else_case=none())
    if slot == 'while_cond': return E(S, 'While', meta=b.meta(), cond=e, stmt=BoxV(blk([])))
    if slot == 'multi_l': return E(S, 'MultiSubstitution', meta=b.meta(), lhe=e, op=assign, rhe=plain())
    if slot == 'multi_r': return E(S, 'MultiSubstitution', meta=b.meta(), lhe=plain(), op=assign, rhe=e)
    if slot == 'multi_both': return E(S, 'MultiSubstitution', meta=b.meta(), lhe=b.tuple([b.var('x'), b.var('y')]), op=assign, rhe=e)
    if slot == 'block': return blk([leaf(plain()), E(S, 'Assert', meta=b.meta(), arg=e)])
    if slot == 'init': return E(S, 'InitializationBlock', meta=b.meta(), xtype=Enum('ast::VariableType', 'Var'), initializations=VecV([E(S, 'Substitution', meta=b.meta(), var=StrV.of('x'), access=VecV([]), op=assign, rhe=e)]))
    if slot == 'if_body': return E(S, 'IfThenElse', meta=b.meta(), cond=plain(), if_case=BoxV(blk([E(S, 'Assert', meta=b.meta(), arg=e)])), else_case=none())
    if slot == 'else_body': return E(S, 'IfThenElse', meta=b.meta(), cond=plain(), if_case=BoxV(blk([])), else_case=some(BoxV(leaf(e))))
    if slot == 'while_body': return E(S, 'While', meta=b.meta(), cond=plain(), stmt=BoxV(leaf(e)))
    raise KeyError(slot)


def templates():
    """the template table seen by the remover: `C` with inputs p, q (declared in this order) and output o; `C2` with outputs o1, o2"""
    from mirsym.models_coll import MapV
    return MapV([[StrV.of('C'), Opaque('template', 'C')], [StrV.of('C2'), Opaque('template', 'C2')]])


def real_templates(ir, b, body):
    """HashMap<String, TemplateData> with real TemplateData values: T (the body under test), C and C2 (the instantiated templates)"""
    from mirsym.models_coll import MapV
    def td(name, body_, ins, outs):
        sig = lambda names: VecV([Struct('()', [StrV.of(n), 0]) for n in names])
        return ir.S('TemplateData', file_id=0, name=StrV.of(name), body=body_, num_of_params=0, name_of_params=VecV([]), param_location=ir.range_(0, 0),
                    input_signals=MapV(), output_signals=MapV(), is_parallel=False, is_custom_gate=False, input_declarations=sig(ins), output_declarations=sig(outs))
    empty = lambda: ir.E(S, 'Block', meta=b.meta(), stmts=VecV([]))
    return MapV([[StrV.of('T'), td('T', body, [], [])], [StrV.of('C'), td('C', empty(), *SIGS['C'])], [StrV.of('C2'), td('C2', empty(), *SIGS['C2'])]])


SIGS = {'C': (['p'], ['o']), 'C2': (['p', 'q'], ['o1', 'o2'])}


def install_templates(h):
    R = lambda p, f: h.stub_res.append((re.compile(p), f))
    sig = lambda names: VecV([Struct('()', [StrV.of(n), 0]) for n in names])
    def decl(which):
        def f(ex, a, m):
            t = deref(a[0])
            if isinstance(t, Opaque): return Ref([sig(SIGS[t.data][which])], 0)
            return Ref(t.f, ex.prog.defs.struct_fields('TemplateData').index('input_declarations' if which == 0 else 'output_declarations'))
        return f
    R(r'(?:\w+::)*TemplateData::get_declaration_inputs', decl(0))
    R(r'(?:\w+::)*TemplateData::get_declaration_outputs', decl(1))
    R(r'(?:\w+::)*FileLibrary::get_line', lambda ex, a, m: some(7))
    R(r'(?:errors::)?AnonymousComponentError::new', lambda ex, a, m: Opaque('anonerr'))
    R(r'(?:errors::)?AnonymousComponentError::into_report', lambda ex, a, m: Opaque('report', 'anon'))


def walk_has(v, variant):
    """independent walker over an engine value: is there an Expression of the given variant anywhere?"""
    v = deref(v)
    if isinstance(v, Enum):
        if v.var == variant and 'Expression' in str(v.ty): return True
        return any(walk_has(x, variant) for x in v.f)
    if isinstance(v, Struct): return any(walk_has(x, variant) for x in v.f)
    if isinstance(v, BoxV): return walk_has(v.f[0], variant)
    if isinstance(v, VecV): return any(walk_has(x, variant) for x in v.items)
    return False


COMBOS = [(sl, sh, sg) for sl in STMT_SLOTS for sh in EXPR_SHAPES for sg in ('tuple', 'anon')]


def tasks(tier):
    n = len(COMBOS); chunk = (n + 31) // 32
    ts = [{'lo': i, 'hi': min(n, i + chunk)} for i in range(0, n, chunk)]
    ts += [{'part': 'expand', 'nl': nl, 'nr': nr} for nl in (1, 2, 3, 4) for nr in (nl, nl + 1)]
    ts += [{'part': 'anon_expand', 'form': f, 'nsig': k, 'outs': o} for f in ('positional', 'named') for k in (1, 2, 3) for o in (1, 2)]
    return ts


def run_anon_expand(task):
    """`x <== C3(..)(e0, e1)` / `(x, y) <== C4(..)(e0, e1)` through the real remove_syntactic_sugar: the template C3 (C4) declares the inputs
    p, q in this order and the output o (outputs o1, o2).  In the named form the argument names are SYMBOLIC one-character strings.
    Expected: an error unless the arguments cover the inputs exactly; otherwise, in this order, the component is initialised, its
    inputs are assigned in DECLARATION order (positionally, or by name with the operator written for that name) and the output(s) are
    read in declaration order."""
    pr = prog(); ir = IR(pr)
    h = Harness(pr, 'parser'); stats = Stats()
    h.notes['render_format'] = True
    R = lambda p, f: h.stub_res.append((re.compile(p), f))
    R(r'(?:errors::)?TupleError::boxed_report', lambda ex, a, m: BoxV(Opaque('report', 'tuple')))
    R(r'(?:errors::)?AnonymousComponentError::boxed_report', lambda ex, a, m: BoxV(Opaque('report', 'anon')))
    R(r'(?:errors::)?TupleError::into_report', lambda ex, a, m: Opaque('report', 'tuple'))
    install_templates(h)
    sugar_fn = pr.find('remove_syntactic_sugar', crate='parser')
    nsig, outs, form = task['nsig'], task['outs'], task['form']
    ins = ['p', 'q']; outn = ['o'] if outs == 1 else ['o1', 'o2']
    cs = [z3.Int('n%d' % i) for i in range(nsig)]; ops = [z3.Bool('arrow%d' % i) for i in range(nsig)]
    base = []
    if form == 'named':
        for i, c in enumerate(cs): h.inputs['n%d' % i] = c; base.append(z3.And(c >= 112, c <= 114))        # p, q or r
        for i, o in enumerate(ops): h.inputs['arrow%d' % i] = o

    def entry(ex):
        b = AST(ir)
        sig = [b.var('e%d' % i) for i in range(nsig)]
        names = none()
        if form == 'named':
            opv = [Enum('ast::AssignOp', 'AssignSignal' if ex.decide(o) else 'AssignConstraintSignal') for o in ops]
            names = some(VecV([Struct('()', [opv[i], StrV([cs[i]])]) for i in range(nsig)]))
            ex.notes['ops'] = [o.var for o in opv]
        call = b.anon(sig, names, 'K')
        if outs == 1: st = ir.E(S, 'Substitution', meta=b.meta(), var=StrV.of('x'), access=VecV([]), op=Enum('ast::AssignOp', 'AssignConstraintSignal'), rhe=call)
        else: st = ir.E(S, 'MultiSubstitution', meta=b.meta(), lhe=b.tuple([b.var('x'), b.var('y')]), op=Enum('ast::AssignOp', 'AssignConstraintSignal'), rhe=call)
        body = ir.E(S, 'Block', meta=b.meta(), stmts=VecV([st]))
        SIGS['K'] = (ins, outn)
        tmap = real_templates(ir, b, body)
        tmap.entries.append([StrV.of('K'), deref(tmap.entries[1][1]).__class__('TemplateData', list(deref(tmap.entries[1][1]).f))])
        kt = deref(tmap.entries[-1][1]); fl = pr.defs.struct_fields('TemplateData')
        sigv = lambda names_: VecV([Struct('()', [StrV.of(n), 0]) for n in names_])
        kt.f[fl.index('name')] = StrV.of('K'); kt.f[fl.index('input_declarations')] = sigv(ins); kt.f[fl.index('output_declarations')] = sigv(outn)
        kt.f[fl.index('body')] = ir.E(S, 'Block', meta=b.meta(), stmts=VecV([]))
        reports = VecV([])
        out = ex.call_mir(sugar_fn, [Ref([tmap], 0), Ref([MapV()], 0), Ref([Opaque('filelibrary')], 0), Ref([reports], 0)])
        kept = [e for e in deref(out.f[0]).entries if deref(e[0]).concrete() == 'T']
        return (ir.get(deref(kept[0][1]), 'body') if kept else None), len(reports.items)

    def flat(v, out):
        v = deref(v)
        if isinstance(v, BoxV): return flat(v.f[0], out)
        if v.var in ('Block',): [flat(x, out) for x in ir.get(v, 'stmts').items]
        elif v.var == 'InitializationBlock': [flat(x, out) for x in ir.get(v, 'initializations').items]
        elif v.var == 'Substitution': out.append(v)
        elif v.var == 'Declaration': out.append(v)
        else: out.append(v)
        return out

    def post(ex, res):
        body, nrep = res
        names = [chr(ex.concretize(c, 112, 114)) for c in cs] if form == 'named' else None
        info = {'form': form, 'arguments': nsig, 'names': names, 'outputs': outs}
        if form == 'named': okay = nsig == len(ins) and all(n in names for n in ins)
        else: okay = nsig == len(ins)
        if not okay:
            ex.oblige(body is None and nrep >= 1, 'anon-expand', 'a call whose arguments do not cover the inputs p, q exactly is rejected with an error (%s)' % info, extra=info); return
        ex.oblige(body is not None, 'anon-expand', 'a well-formed anonymous component call is expanded (%s)' % info, extra=info)
        if body is None: return
        items = flat(body, [])
        subs = [x for x in items if x.var == 'Substitution']; decls = [x for x in items if x.var == 'Declaration']
        def acc(x): return [deref(a).f[0].concrete() if deref(a).var == 'ComponentAccess' else '[]' for a in ir.get(x, 'access').items]
        def rdesc(e):
            e = deref(e)
            if e.var == 'Call': return 'call ' + ir.get(e, 'id').concrete()
            if e.var == 'Variable': return ir.get(e, 'name').concrete() + ''.join('.' + (deref(a).f[0].concrete() if deref(a).var == 'ComponentAccess' else '[]') for a in ir.get(e, 'access').items)
            return e.var
        got = [(ir.get(x, 'var').concrete(), acc(x), ir.get(x, 'op').var, rdesc(ir.get(x, 'rhe'))) for x in subs]
        inits = [g for g in got if g[3] == 'call K']
        ex.oblige(len(inits) == 1, 'anon-expand', 'the component is initialised exactly once with K(..) (%s)' % got, extra=info)
        if len(inits) != 1: return
        cid = inits[0][0]
        ex.oblige(any(ir.get(d, 'name').concrete() == cid and ir.get(d, 'xtype').var == 'Component' for d in decls), 'anon-expand', 'the component `%s` is declared as a component' % cid, extra=info)
        want = [(cid, [], 'AssignVar', 'call K')]
        for k, inp in enumerate(ins):
            pos = names.index(inp) if names else k
            op = ex.notes['ops'][pos] if names else 'AssignConstraintSignal'
            want.append((cid, [inp], op, 'e%d' % pos))
        if outs == 1: want.append(('x', [], 'AssignConstraintSignal', '%s.o' % cid))
        else: want += [('x', [], 'AssignConstraintSignal', '%s.o1' % cid), ('y', [], 'AssignConstraintSignal', '%s.o2' % cid)]
        ex.oblige(got == want, 'anon-expand', 'the call behaves as the declared component: inputs assigned in declaration order (by position or by name), outputs read in declaration order (%s: got %s, expected %s)' % (info, got, want), extra=info)
    st_, vs, inc = explore(h, entry, None, post=post, base=base, stats=stats, seed=common.seed())
    for v in vs: v.extra['combo'] = ('anon_expand', json.dumps(v.extra.get('names')) + '/' + str(task), 'anon')
    return {'stats': common.pack_stats(stats), 'violations': [common.pack_violation(v) for v in vs]}


def run_expand(task):
    """(d_1, .., d_n) op (r_1, .., r_m): destination names are SYMBOLIC one-character strings, so whether an element is `_`
    is the solver's choice wherever the code compares a name with "_".  Expected: Err if n != m, else the block
    [d_i op r_i for the i with d_i != "_"] in order."""
    pr = prog(); ir = IR(pr)
    h = Harness(pr, 'parser'); stats = Stats()
    R = lambda p, f: h.stub_res.append((re.compile(p), f))
    R(r'(?:errors::)?TupleError::boxed_report', lambda ex, a, m: BoxV(Opaque('report', 'tuple')))
    R(r'(?:errors::)?TupleError::into_report', lambda ex, a, m: Opaque('report', 'tuple'))
    nl, nr = task['nl'], task['nr']
    cs = [z3.Int('d%d' % i) for i in range(nl)]
    for i, c in enumerate(cs): h.inputs['d%d' % i] = c
    base = [z3.Or(c == 95, z3.And(c >= 112, c <= 122)) for c in cs]
    rm = pr.find('remove_tuples_from_statement', crate='parser')

    def entry(ex):
        b = AST(ir)
        lhe = b.tuple([ir.E(X, 'Variable', meta=b.meta(), name=StrV([c]), access=VecV([])) for c in cs])
        rhe = b.tuple([b.var('r%d' % j) for j in range(nr)])
        st = ir.E(S, 'MultiSubstitution', meta=b.meta(), lhe=lhe, op=Enum('ast::AssignOp', 'AssignConstraintSignal'), rhe=rhe)
        return ex.call_mir(rm, [st])

    def post(ex, res):
        under = [ex.decide(c == 95) for c in cs]
        info = {'destinations': ['_' if u else 'd%d' % i for i, u in enumerate(under)], 'sources': nr}
        if nl != nr:
            ex.oblige(res.var == 'Err', 'expand', 'tuples of different length are rejected (%s)' % info, extra=info); return
        ex.oblige(res.var == 'Ok', 'expand', 'a well-formed tuple assignment is expanded (%s)' % info, extra=info)
        if res.var != 'Ok': return
        blk = deref(res.f[0])
        ex.oblige(blk.var == 'Block', 'expand', 'the expansion is a block of assignments', extra=info)
        if blk.var != 'Block': return
        got = []
        for st in ir.get(blk, 'stmts').items:
            st = deref(st)
            if st.var != 'Substitution': got.append(('?', st.var)); continue
            rhe = deref(ir.get(st, 'rhe'))
            nm = ir.get(st, 'var'); k = [i for i, c in enumerate(cs) if deref(nm).chars and deref(nm).chars[0] is c]
            got.append((k[0] if k else repr(deref(nm)), ir.get(rhe, 'name').concrete() if rhe.var == 'Variable' else rhe.var, ir.get(st, 'op').var))
        want = [(i, 'r%d' % i, 'AssignConstraintSignal') for i in range(nl) if not under[i]]
        ex.oblige(got == want, 'expand', 'a tuple assignment behaves as the element-wise assignments in order, skipping `_` (destinations %s: got %s, expected %s)' % (info['destinations'], got, want), extra=info)
    st_, vs, inc = explore(h, entry, None, post=post, base=base, stats=stats, seed=common.seed())
    for v in vs: v.extra['combo'] = ('expand', str(v.extra.get('destinations')), 'tuple')
    return {'stats': common.pack_stats(stats), 'violations': [common.pack_violation(v) for v in vs]}


def run_task(task):
    if task.get('part') == 'expand': return run_expand(task)
    if task.get('part') == 'anon_expand': return run_anon_expand(task)
    pr = prog(); ir = IR(pr)
    h = Harness(pr, 'parser'); stats = Stats()
    R = lambda p, f: h.stub_res.append((re.compile(p), f))
    R(r'(?:errors::)?TupleError::boxed_report', lambda ex, a, m: BoxV(Opaque('report', 'tuple')))
    R(r'(?:errors::)?AnonymousComponentError::boxed_report', lambda ex, a, m: BoxV(Opaque('report', 'anon')))
    R(r'(?:errors::)?TupleError::into_report', lambda ex, a, m: Opaque('report', 'tuple'))
    idx = z3.Int('combo'); h.inputs['combo'] = idx
    rm = pr.find('remove_tuples_from_statement', crate='parser')
    ct_s = pr.find('ContainsExpression::contains_tuple', crate='parser') if False else None

    def trait_default(name):
        fns = [f for n, f in pr.crates['parser'].items() if n.endswith('ContainsExpression::' + name)]
        if len(fns) != 1: raise Unsupported('trait default method %s: %d candidates' % (name, len(fns)))
        return fns[0]
    f_ct = trait_default('contains_tuple'); f_ca = trait_default('contains_anonymous_component')
    build = pr.find('build_basic_blocks', crate='structure'); envnew = pr.method(None, 'LiftingEnvironment', 'new')
    rma = pr.find('remove_anonymous_from_statement', crate='parser'); sugar_fn = pr.find('remove_syntactic_sugar', crate='parser')
    install_templates(h)

    def entry(ex):
        k = ex.concretize(idx, task['lo'], task['hi'] - 1)
        slot, shape, sugar = COMBOS[k]
        b = AST(ir)
        st = mk_stmt(ir, b, slot, mk_expr(b, shape, sugar))
        ex.notes['combo'] = (slot, shape, sugar)
        has_t = walk_has(st, 'Tuple'); has_a = walk_has(st, 'AnonymousComponent')
        ct = ex.call_mir(f_ct, [Ref([st], 0), none()])
        ca = ex.call_mir(f_ca, [Ref([st], 0), none()])
        # precondition of remove_tuples_from_statement: anonymous components have been expanded before (remove_syntactic_sugar)
        res = ex.call_mir(rm, [clone_val(st)]) if sugar == 'tuple' else None
        if sugar == 'anon':
            ra = ex.call_mir(rma, [Ref([templates()], 0), Ref([Opaque('filelibrary')], 0), clone_val(st), Ref([none()], 0)])
            ex.notes['anon_result'] = ra
            # the whole desugaring as parse_files runs it (anonymous components, then tuples) on a template whose body is this
            # statement, followed by the real CFG / IR lifter on what is handed to the analysis
            body = clone_val(st)
            if deref(body).var != 'Block': body = ir.E(S, 'Block', meta=b.meta(), stmts=VecV([body]))
            tmap = real_templates(ir, b, body)
            reports = VecV([])
            out = ex.call_mir(sugar_fn, [Ref([tmap], 0), Ref([MapV()], 0), Ref([Opaque('filelibrary')], 0), Ref([reports], 0)])
            newt = deref(out.f[0])
            kept = [e for e in newt.entries if deref(e[0]).concrete() == 'T']
            ex.notes['kept'] = bool(kept); ex.notes['nreports'] = len(reports.items)
            if kept:
                nb = ir.get(deref(kept[0][1]), 'body')
                ex.notes['final_has'] = (walk_has(nb, 'AnonymousComponent'), walk_has(nb, 'Tuple'))
                if not any(ex.notes['final_has']):
                    env = ex.call_mir(envnew, [])
                    ex.call_mir(build, [Ref([clone_val(nb)], 0), Ref([env], 0), Ref([VecV([])], 0)])
        if res is not None and res.var == 'Ok' and not walk_has(res.f[0], 'Tuple'):
            # what the analysis does next with a desugared body: the real CFG / IR lifter must not reach one of its catch-all panics
            body = clone_val(res.f[0])
            if deref(body).var != 'Block': body = ir.E(S, 'Block', meta=b.meta(), stmts=VecV([body]))
            env = ex.call_mir(envnew, [])
            ex.call_mir(build, [Ref([body], 0), Ref([env], 0), Ref([VecV([])], 0)])
        return has_t, has_a, ct, ca, res

    def post(ex, out):
        has_t, has_a, ct, ca, res = out; combo = ex.notes['combo']
        ex.oblige(ct == has_t, 'contains', 'contains_tuple answers %s for %s (a tuple %s present)' % (ct, combo, 'is' if has_t else 'is not'))
        ex.oblige(ca == has_a, 'contains', 'contains_anonymous_component answers %s for %s' % (ca, combo))
        ra = ex.notes.get('anon_result')
        if ra is not None and ra.var == 'Ok':
            left = walk_has(ra.f[0], 'AnonymousComponent')
            ex.oblige(not left, 'anon-left', 'remove_anonymous_from_statement returned Ok but an anonymous component is still present (%s)' % (combo,), extra={'combo': combo})
        if 'kept' in ex.notes:
            if ex.notes['kept']:
                fa, ft = ex.notes['final_has']
                ex.oblige(not fa and not ft, 'sugar-left', 'the template handed to the analysis still contains %s (%s)' % ('an anonymous component' if fa else 'a tuple', combo), extra={'combo': combo})
            else:
                ex.oblige(ex.notes['nreports'] >= 1, 'silent-drop', 'a template that cannot be desugared is dropped with an error report (%s)' % (combo,), extra={'combo': combo})
        if res is not None and res.var == 'Ok':
            left = walk_has(res.f[0], 'Tuple')
            ex.oblige(not left, 'tuple-left', 'remove_tuples_from_statement returned Ok but a tuple is still present (%s)' % (combo,), extra={'combo': combo})
    st_, vs, inc = explore(h, entry, None, post=post, base=[idx >= task['lo'], idx < task['hi']], stats=stats, seed=common.seed())
    for v in vs: v.extra['combo'] = COMBOS[v.model.get('combo', 0)]
    return {'stats': common.pack_stats(stats), 'violations': [common.pack_violation(v) for v in vs]}


# ----------------------------------------------------------------------------- replay through the real binary
SRC_EXPR = {'plain': 'a + 2', 'top': '(a, b)', 'infix_l': '(a, b) + a', 'infix_r': 'a + (a, b)', 'prefix': '-(a, b)', 'switch_c': '(a, b) ? 1 : 2', 'switch_t': 'a ? (a, b) : 2',
            'switch_f': 'a ? 1 : (a, b)', 'call': 'f(a, (a, b))', 'array': '[1, (a, b)]', 'index': 'v[(a, b)]', 'nested_tuple': '(a, (a, b))',
            'index_2nd': 'm[0][(a, b)]', 'comp_index': 'c.o[(a, b)]', 'index_comp': 'd[(a, b)].o'}


def source_for(slot, shape, sugar='tuple'):
    e = SRC_EXPR.get(shape)
    if e is None: return None
    if sugar == 'anon': e = e.replace('(a, b)', 'Sub()(a)')
    line = {'return': None, 'assert': 'assert(%s);' % e, 'log': 'log("x", %s);' % e, 'ceq_l': '%s === a;' % e, 'ceq_r': 'a === %s;' % e, 'subst_rhe': 'x = %s;' % e,
            'subst_idx': 'v[%s] = a;' % e, 'decl_dim': 'var w[2][%s];' % e, 'if_cond': 'if (%s) { }' % e, 'while_cond': 'while (%s) { }' % e,
            'block': '{ x = a; assert(%s); }' % e, 'if_body': 'if (a) { assert(%s); }' % e, 'else_body': None, 'while_body': None, 'init': 'var z = %s;' % e}.get(slot)
    if line is None: return None
    return ('pragma circom 2.0.0;\ntemplate Sub() {\n    signal input i;\n    signal output o[2];\n    o[0] <== i;\n    o[1] <== i;\n}\n'
            'template T() {\n    signal input a;\n    signal input b;\n    var x;\n    var v[2];\n    var m[2][2];\n    component c = Sub();\n    c.i <== a;\n    component d[2];\n    d[0] = Sub();\n    d[1] = Sub();\n    d[0].i <== a;\n    d[1].i <== b;\n    %s\n}\n' % line)


def confirm_expand(dests):
    """findings of the tuple form == findings of the hand-written expansion (ids and anchored signal names), through the native pipeline"""
    import ast as _ast
    dests = _ast.literal_eval(dests) if isinstance(dests, str) else dests
    n = len(dests)
    head = 'pragma circom 2.0.0;\ntemplate T() {\n' + ''.join('    signal input i%d;\n    signal output o%d;\n' % (i, i) for i in range(n))
    lhs = ', '.join('_' if d == '_' else 'o%d' % i for i, d in enumerate(dests)); rhs = ', '.join('i%d * i%d' % (i, i) for i in range(n))
    a = head + '    (%s) <== (%s);\n}\n' % (lhs, rhs)
    b = head + ''.join('    o%d <== i%d * i%d;\n' % (i, i, i) for i, d in enumerate(dests) if d != '_') + '}\n'
    d = tempfile.mkdtemp(prefix='vc18_', dir=common.CACHE)
    outs = []
    try:
        nat = common.Native(common.build_replay('vr_analysis'))
        for k, src in enumerate((a, b)):
            path = os.path.join(d, 'f%d.circom' % k); open(path, 'w').write(src)
            out = nat.ask('analyzefile bn254 ' + path, timeout=30)
            # a finding is identified by its code and the text under its primary label
            toks = []
            for t in out.split()[1:]:
                f = t.split(':'); lo, hi = f[2].split('-')
                toks.append((f[0], src.encode()[int(lo):int(hi)].decode(errors='replace').split('<==')[0].strip() if int(lo) >= 0 else ''))
            outs.append((out.split()[0] if out else '', sorted(toks)))
        nat.close()
    finally:
        shutil.rmtree(d, ignore_errors=True)
    # findings anchored at a declaration are compared with their text, the others (anchored at the assignment, whose text differs by construction) by code
    norm = lambda o: sorted((c, x if x.startswith('signal') else '') for c, x in o[1])
    return outs[0][0] != 'OK' or norm(outs[0]) != norm(outs[1]), {'tuple form': outs[0], 'expansion': outs[1]}, 'the same findings'


def confirm(combo):
    from . import realbin
    slot, shape, sugar = combo
    if slot == 'expand': return confirm_expand(shape)
    src = source_for(slot, shape, sugar)
    if src is None: return None, 'no source form for this combination', None
    d = tempfile.mkdtemp(prefix='vc18_', dir=common.CACHE)
    try:
        open(os.path.join(d, 'a.circom'), 'w').write(src)
        rc, out = realbin.run([os.path.join(d, 'a.circom')], d)
        bad = rc not in (0, 1) or 'panicked' in out or realbin.summary(out) is None
        return bad, {'exit': rc, 'tail': out[-200:]}, 'the template is either rejected with an error or analysed (no panic in the lifter)'
    finally:
        shutil.rmtree(d, ignore_errors=True)


def main(tier, replay=None):
    rep = common.Report('C18', tier)
    if replay:
        d = json.load(open(replay)); bad, got, exp = confirm(tuple(d['combo']))
        print('replay: observed=%s expected=%s -> %s' % (got, exp, 'VIOLATION' if bad else 'holds')); return 1 if bad else 0
    for combo in (('subst_rhe', 'infix_r', 'tuple'), ('if_cond', 'top', 'tuple'), ('ceq_l', 'plain', 'tuple'), ('expand', "['d0', '_', 'd2']", 'tuple'), ('expand', "['_', 'd1']", 'tuple')):
        bad, got, exp = confirm(combo); rep.validated += 1
        if bad: rep.inconclusive.append('fixed program %s: %s' % (combo, got))
    ts = tasks(tier)
    results = common.run_tasks('specs.C18', ts)
    known = common.load_known('C18'); seen = {}
    for r in results:
        if 'error' in r:
            rep.inconclusive.append('task %s: %s' % (r['task'], r['error'][:500])); continue
        rep.add_stats(r['stats'])
        for v in r['violations']:
            combo = tuple(v['extra'].get('combo', ('?', '?', '?')))
            role = {'function': 'remove_tuples_from_statement' if v['kind'] in ('tuple-left', 'expand') else 'ContainsExpression', 'kind': v['kind'], 'class': combo[0]}
            key = json.dumps(role, sort_keys=True)
            if key in seen: continue
            bad, got, exp = confirm(combo); rep.validated += 1
            if bad is False:
                rep.nonrepro.append({'combo': combo, 'violation': v, 'observed': got}); continue
            seen[key] = 1
            k = common.match_known(known, role)
            desc = '%s observed=%s' % (v['msg'], got)
            if k: rep.known_hits.append('%s (%s)' % (k['id'], desc[:300]))
            else:
                rep.violations.append(rep.save_replay(role, {'property': 'C18', 'combo': list(combo), 'violation': v, 'observed': got, 'expected': exp, 'native_replay': bad is True}))
                common.log('VIOLATION detail:', desc)
    if rep.nonrepro and not rep.violations:
        rep.inconclusive.append('%d counterexamples did not reproduce with the real binary, e.g. %s' % (len(rep.nonrepro), json.dumps(rep.nonrepro[0], default=str)[:300]))
    pr = prog()
    rep.bounds = {'statements': '%d statement slots x %d expression shapes x {tuple, anonymous component} = %d combinations (solver variable `combo`)' % (len(STMT_SLOTS), len(EXPR_SHAPES), len(COMBOS))}
    rep.stubs = ['TupleError / AnonymousComponentError report construction']
    rep.assumptions = ['an independent walker over the resulting value decides whether a tuple is left', 'source hash ' + pr.hashes['parser']]
    rep.bounds['expansion'] = 'tuple assignments with 1..4 destinations whose names are symbolic one-character strings (`_` or a letter) and as many or one more source'
    rep.outside = ['anonymous-component expansion (remove_anonymous_from_statement/expression: needs template signatures)', 'tuple assignments whose right-hand side is an anonymous component; findings of the expansion beyond the fixed native scenarios', 'deeper nestings']
    rep.extra['exhaustive'] = True
    return rep.finish()
