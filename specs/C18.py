"""C18 — tuples and anonymous components are desugared completely (partial: the tuple half).

Engine: mirsym over the MIR of parser::syntax_sugar_remover::{remove_tuples_from_statement,
remove_tuple_from_expression, separate_tuple_for_log_call} and of the ContainsExpression traversals
(contains_tuple / contains_anonymous_component) in parser::syntax_sugar_traits.

Input: every statement kind of the AST with expression slots filled from a family of expression shapes
(plain, tuple at the top, tuple nested under an infix / prefix / ternary / call / inline array / array
index / parallel operator; likewise an anonymous component); the (statement, slot, shape) index is a solver
variable - one path per combination.

Decided:
  * remove_tuples_from_statement returns Err, or a statement in which an independent walker finds no tuple
    anywhere ("every template handed to the analysis is free of tuples ... wherever they occur");
  * contains_tuple / contains_anonymous_component answer true iff the independent walker finds one
    (functions containing them are rejected wherever they occur).
Outside: anonymous-component expansion (needs template signatures), and that the expansion behaves as the
hand-written one.
"""
import re, json, os, tempfile, shutil, itertools
import z3
from . import common
from mirsym.program import Program
from mirsym.engine import Harness, explore, Stats, Unsupported
from mirsym.values import *
from mirsym.models import some, none, ok, err
from .irbuild import IR

_prog = None
X = 'ast::Expression'; S = 'ast::Statement'


def prog():
    global _prog
    if _prog is None: _prog = Program(['structure', 'parser'])
    return _prog


class AST:
    def __init__(self, ir): self.ir = ir; self.n = 0
    def meta(self):
        self.n += 1; i = self.n
        return Struct('ast::Meta', [i, i, i, self.ir.range_(i, i), some(0), Opaque('ci'), Opaque('tk'), Opaque('mk')])
    def var(self, name='a', access=()): return self.ir.E(X, 'Variable', meta=self.meta(), name=StrV.of(name), access=VecV(list(access)))
    def num(self, v=1): return Enum(X, 'Number', [self.meta(), BigV(v)])
    def tuple(self, vals=None): return self.ir.E(X, 'Tuple', meta=self.meta(), values=VecV(vals if vals is not None else [self.var('a'), self.var('b')]))
    def anon(self): return self.ir.E(X, 'AnonymousComponent', meta=self.meta(), id=StrV.of('C'), is_parallel=False, params=VecV([]), signals=VecV([self.var('a')]), names=none())
    def infix(self, l, r): return self.ir.E(X, 'InfixOp', meta=self.meta(), lhe=BoxV(l), infix_op=Enum('ast::ExpressionInfixOpcode', 'Add'), rhe=BoxV(r))
    def prefix(self, e): return self.ir.E(X, 'PrefixOp', meta=self.meta(), prefix_op=Enum('ast::ExpressionPrefixOpcode', 'Sub'), rhe=BoxV(e))
    def switch(self, c, t, f): return self.ir.E(X, 'InlineSwitchOp', meta=self.meta(), cond=BoxV(c), if_true=BoxV(t), if_false=BoxV(f))
    def call(self, args): return self.ir.E(X, 'Call', meta=self.meta(), id=StrV.of('f'), args=VecV(list(args)))
    def arr(self, vals): return self.ir.E(X, 'ArrayInLine', meta=self.meta(), values=VecV(list(vals)))
    def par(self, e): return self.ir.E(X, 'ParallelOp', meta=self.meta(), rhe=BoxV(e))
    def idx(self, e): return Enum('ast::Access', 'ArrayAccess', [e])
    def comp(self, name): return Enum('ast::Access', 'ComponentAccess', [StrV.of(name)])


EXPR_SHAPES = ['plain', 'top', 'infix_l', 'infix_r', 'prefix', 'switch_c', 'switch_t', 'switch_f', 'call', 'array', 'index', 'parallel', 'nested_tuple', 'index_2nd', 'comp_index', 'index_comp']
STMT_SLOTS = ['return', 'assert', 'log', 'ceq_l', 'ceq_r', 'subst_rhe', 'subst_idx', 'decl_dim', 'if_cond', 'while_cond', 'multi_l', 'multi_r', 'multi_both', 'block', 'init', 'if_body', 'else_body', 'while_body']


def mk_expr(b, shape, sugar):
    t = (b.tuple if sugar == 'tuple' else b.anon)
    if shape == 'plain': return b.infix(b.var('a'), b.num(2))
    if shape == 'top': return t()
    if shape == 'infix_l': return b.infix(t(), b.var('a'))
    if shape == 'infix_r': return b.infix(b.var('a'), t())
    if shape == 'prefix': return b.prefix(t())
    if shape == 'switch_c': return b.switch(t(), b.num(1), b.num(2))
    if shape == 'switch_t': return b.switch(b.var('a'), t(), b.num(2))
    if shape == 'switch_f': return b.switch(b.var('a'), b.num(1), t())
    if shape == 'call': return b.call([b.var('a'), t()])
    if shape == 'array': return b.arr([b.num(1), t()])
    if shape == 'index': return b.var('v', [b.idx(t())])
    if shape == 'index_2nd': return b.var('m', [b.idx(b.num(0)), b.idx(t())])
    if shape == 'comp_index': return b.var('c', [b.comp('o'), b.idx(t())])
    if shape == 'index_comp': return b.var('d', [b.idx(t()), b.comp('o')])
    if shape == 'parallel': return b.par(t())
    if shape == 'nested_tuple': return b.tuple([b.var('a'), t()])
    raise KeyError(shape)


def mk_stmt(ir, b, slot, e):
    E = ir.E; plain = lambda: b.var('a')
    leaf = lambda ex_: E(S, 'Return', meta=b.meta(), value=ex_)
    blk = lambda stmts: E(S, 'Block', meta=b.meta(), stmts=VecV(list(stmts)))
    assign = Enum('ast::AssignOp', 'AssignVar')
    if slot == 'return': return leaf(e)
    if slot == 'assert': return E(S, 'Assert', meta=b.meta(), arg=e)
    if slot == 'log': return E(S, 'LogCall', meta=b.meta(), args=VecV([Enum('ast::LogArgument', 'LogStr', [StrV.of('x')]), Enum('ast::LogArgument', 'LogExp', [e])]))
    if slot == 'ceq_l': return E(S, 'ConstraintEquality', meta=b.meta(), lhe=e, rhe=plain())
    if slot == 'ceq_r': return E(S, 'ConstraintEquality', meta=b.meta(), lhe=plain(), rhe=e)
    if slot == 'subst_rhe': return E(S, 'Substitution', meta=b.meta(), var=StrV.of('x'), access=VecV([]), op=assign, rhe=e)
    if slot == 'subst_idx': return E(S, 'Substitution', meta=b.meta(), var=StrV.of('x'), access=VecV([b.idx(e)]), op=assign, rhe=plain())
    if slot == 'decl_dim': return E(S, 'Declaration', meta=b.meta(), xtype=Enum('ast::VariableType', 'Var'), name=StrV.of('x'), dimensions=VecV([b.num(2), e]), is_constant=True)
    if slot == 'if_cond': return E(S, 'IfThenElse', meta=b.meta(), cond=e, if_case=BoxV(blk([])), else_case=none())
    if slot == 'while_cond': return E(S, 'While', meta=b.meta(), cond=e, stmt=BoxV(blk([])))
    if slot == 'multi_l': return E(S, 'MultiSubstitution', meta=b.meta(), lhe=e, op=assign, rhe=plain())
    if slot == 'multi_r': return E(S, 'MultiSubstitution', meta=b.meta(), lhe=plain(), op=assign, rhe=e)
    if slot == 'multi_both': return E(S, 'MultiSubstitution', meta=b.meta(), lhe=b.tuple([b.var('x'), b.var('y')]), op=assign, rhe=e)
    if slot == 'block': return blk([leaf(plain()), E(S, 'Assert', meta=b.meta(), arg=e)])
    if slot == 'init': return E(S, 'InitializationBlock', meta=b.meta(), xtype=Enum('ast::VariableType', 'Var'), initializations=VecV([E(S, 'Substitution', meta=b.meta(), var=StrV.of('x'), access=VecV([]), op=assign, rhe=e)]))
    if slot == 'if_body': return E(S, 'IfThenElse', meta=b.meta(), cond=plain(), if_case=BoxV(blk([E(S, 'Assert', meta=b.meta(), arg=e)])), else_case=none())
    if slot == 'else_body': return E(S, 'IfThenElse', meta=b.meta(), cond=plain(), if_case=BoxV(blk([])), else_case=some(BoxV(leaf(e))))
    if slot == 'while_body': return E(S, 'While', meta=b.meta(), cond=plain(), stmt=BoxV(leaf(e)))
    raise KeyError(slot)


def walk_has(v, variant):
    """independent walker over an engine value: is there an Expression of the given variant anywhere?"""
    v = deref(v)
    if isinstance(v, Enum):
        if v.var == variant and 'Expression' in str(v.ty): return True
        return any(walk_has(x, variant) for x in v.f)
    if isinstance(v, Struct): return any(walk_has(x, variant) for x in v.f)
    if isinstance(v, BoxV): return walk_has(v.f[0], variant)
    if isinstance(v, VecV): return any(walk_has(x, variant) for x in v.items)
    return False


COMBOS = [(sl, sh, sg) for sl in STMT_SLOTS for sh in EXPR_SHAPES for sg in ('tuple', 'anon')]


def tasks(tier):
    n = len(COMBOS); chunk = (n + 31) // 32
    ts = [{'lo': i, 'hi': min(n, i + chunk)} for i in range(0, n, chunk)]
    ts += [{'part': 'expand', 'nl': nl, 'nr': nr} for nl in (1, 2, 3, 4) for nr in (nl, nl + 1)]
    return ts


def run_expand(task):
    """(d_1, .., d_n) op (r_1, .., r_m): destination names are SYMBOLIC one-character strings, so whether an element is `_`
    is the solver's choice wherever the code compares a name with "_".  Expected: Err if n != m, else the block
    [d_i op r_i for the i with d_i != "_"] in order."""
    pr = prog(); ir = IR(pr)
    h = Harness(pr, 'parser'); stats = Stats()
    R = lambda p, f: h.stub_res.append((re.compile(p), f))
    R(r'(?:errors::)?TupleError::boxed_report', lambda ex, a, m: BoxV(Opaque('report', 'tuple')))
    R(r'(?:errors::)?TupleError::into_report', lambda ex, a, m: Opaque('report', 'tuple'))
    nl, nr = task['nl'], task['nr']
    cs = [z3.Int('d%d' % i) for i in range(nl)]
    for i, c in enumerate(cs): h.inputs['d%d' % i] = c
    base = [z3.Or(c == 95, z3.And(c >= 112, c <= 122)) for c in cs]
    rm = pr.find('remove_tuples_from_statement', crate='parser')

    def entry(ex):
        b = AST(ir)
        lhe = b.tuple([ir.E(X, 'Variable', meta=b.meta(), name=StrV([c]), access=VecV([])) for c in cs])
        rhe = b.tuple([b.var('r%d' % j) for j in range(nr)])
        st = ir.E(S, 'MultiSubstitution', meta=b.meta(), lhe=lhe, op=Enum('ast::AssignOp', 'AssignConstraintSignal'), rhe=rhe)
        return ex.call_mir(rm, [st])

    def post(ex, res):
        under = [ex.decide(c == 95) for c in cs]
        info = {'destinations': ['_' if u else 'd%d' % i for i, u in enumerate(under)], 'sources': nr}
        if nl != nr:
            ex.oblige(res.var == 'Err', 'expand', 'tuples of different length are rejected (%s)' % info, extra=info); return
        ex.oblige(res.var == 'Ok', 'expand', 'a well-formed tuple assignment is expanded (%s)' % info, extra=info)
        if res.var != 'Ok': return
        blk = deref(res.f[0])
        ex.oblige(blk.var == 'Block', 'expand', 'the expansion is a block of assignments', extra=info)
        if blk.var != 'Block': return
        got = []
        for st in ir.get(blk, 'stmts').items:
            st = deref(st)
            if st.var != 'Substitution': got.append(('?', st.var)); continue
            rhe = deref(ir.get(st, 'rhe'))
            nm = ir.get(st, 'var'); k = [i for i, c in enumerate(cs) if deref(nm).chars and deref(nm).chars[0] is c]
            got.append((k[0] if k else repr(deref(nm)), ir.get(rhe, 'name').concrete() if rhe.var == 'Variable' else rhe.var, ir.get(st, 'op').var))
        want = [(i, 'r%d' % i, 'AssignConstraintSignal') for i in range(nl) if not under[i]]
        ex.oblige(got == want, 'expand', 'a tuple assignment behaves as the element-wise assignments in order, skipping `_` (destinations %s: got %s, expected %s)' % (info['destinations'], got, want), extra=info)
    st_, vs, inc = explore(h, entry, None, post=post, base=base, stats=stats, seed=common.seed())
    for v in vs: v.extra['combo'] = ('expand', str(v.extra.get('destinations')), 'tuple')
    return {'stats': common.pack_stats(stats), 'violations': [common.pack_violation(v) for v in vs]}


def run_task(task):
    if task.get('part') == 'expand': return run_expand(task)
    pr = prog(); ir = IR(pr)
    h = Harness(pr, 'parser'); stats = Stats()
    R = lambda p, f: h.stub_res.append((re.compile(p), f))
    R(r'(?:errors::)?TupleError::boxed_report', lambda ex, a, m: BoxV(Opaque('report', 'tuple')))
    R(r'(?:errors::)?AnonymousComponentError::boxed_report', lambda ex, a, m: BoxV(Opaque('report', 'anon')))
    R(r'(?:errors::)?TupleError::into_report', lambda ex, a, m: Opaque('report', 'tuple'))
    idx = z3.Int('combo'); h.inputs['combo'] = idx
    rm = pr.find('remove_tuples_from_statement', crate='parser')
    ct_s = pr.find('ContainsExpression::contains_tuple', crate='parser') if False else None

    def trait_default(name):
        fns = [f for n, f in pr.crates['parser'].items() if n.endswith('ContainsExpression::' + name)]
        if len(fns) != 1: raise Unsupported('trait default method %s: %d candidates' % (name, len(fns)))
        return fns[0]
    f_ct = trait_default('contains_tuple'); f_ca = trait_default('contains_anonymous_component')
    build = pr.find('build_basic_blocks', crate='structure'); envnew = pr.method(None, 'LiftingEnvironment', 'new')

    def entry(ex):
        k = ex.concretize(idx, task['lo'], task['hi'] - 1)
        slot, shape, sugar = COMBOS[k]
        b = AST(ir)
        st = mk_stmt(ir, b, slot, mk_expr(b, shape, sugar))
        ex.notes['combo'] = (slot, shape, sugar)
        has_t = walk_has(st, 'Tuple'); has_a = walk_has(st, 'AnonymousComponent')
        ct = ex.call_mir(f_ct, [Ref([st], 0), none()])
        ca = ex.call_mir(f_ca, [Ref([st], 0), none()])
        # precondition of remove_tuples_from_statement: anonymous components have been expanded before (remove_syntactic_sugar)
        res = ex.call_mir(rm, [clone_val(st)]) if sugar == 'tuple' else None
        if res is not None and res.var == 'Ok' and not walk_has(res.f[0], 'Tuple'):
            # what the analysis does next with a desugared body: the real CFG / IR lifter must not reach one of its catch-all panics
            body = clone_val(res.f[0])
            if deref(body).var != 'Block': body = ir.E(S, 'Block', meta=b.meta(), stmts=VecV([body]))
            env = ex.call_mir(envnew, [])
            ex.call_mir(build, [Ref([body], 0), Ref([env], 0), Ref([VecV([])], 0)])
        return has_t, has_a, ct, ca, res

    def post(ex, out):
        has_t, has_a, ct, ca, res = out; combo = ex.notes['combo']
        ex.oblige(ct == has_t, 'contains', 'contains_tuple answers %s for %s (a tuple %s present)' % (ct, combo, 'is' if has_t else 'is not'))
        ex.oblige(ca == has_a, 'contains', 'contains_anonymous_component answers %s for %s' % (ca, combo))
        if res is not None and res.var == 'Ok':
            left = walk_has(res.f[0], 'Tuple')
            ex.oblige(not left, 'tuple-left', 'remove_tuples_from_statement returned Ok but a tuple is still present (%s)' % (combo,), extra={'combo': combo})
    st_, vs, inc = explore(h, entry, None, post=post, base=[idx >= task['lo'], idx < task['hi']], stats=stats, seed=common.seed())
    for v in vs: v.extra['combo'] = COMBOS[v.model.get('combo', 0)]
    return {'stats': common.pack_stats(stats), 'violations': [common.pack_violation(v) for v in vs]}


# ----------------------------------------------------------------------------- replay through the real binary
SRC_EXPR = {'plain': 'a + 2', 'top': '(a, b)', 'infix_l': '(a, b) + a', 'infix_r': 'a + (a, b)', 'prefix': '-(a, b)', 'switch_c': '(a, b) ? 1 : 2', 'switch_t': 'a ? (a, b) : 2',
            'switch_f': 'a ? 1 : (a, b)', 'call': 'f(a, (a, b))', 'array': '[1, (a, b)]', 'index': 'v[(a, b)]', 'nested_tuple': '(a, (a, b))',
            'index_2nd': 'm[0][(a, b)]', 'comp_index': 'c.o[(a, b)]', 'index_comp': 'd[(a, b)].o'}


def source_for(slot, shape):
    e = SRC_EXPR.get(shape)
    if e is None: return None
    line = {'return': None, 'assert': 'assert(%s);' % e, 'log': 'log("x", %s);' % e, 'ceq_l': '%s === a;' % e, 'ceq_r': 'a === %s;' % e, 'subst_rhe': 'x = %s;' % e,
            'subst_idx': 'v[%s] = a;' % e, 'decl_dim': 'var w[2][%s];' % e, 'if_cond': 'if (%s) { }' % e, 'while_cond': 'while (%s) { }' % e,
            'block': '{ x = a; assert(%s); }' % e, 'if_body': 'if (a) { assert(%s); }' % e, 'else_body': None, 'while_body': None, 'init': 'var z = %s;' % e}.get(slot)
    if line is None: return None
    return ('pragma circom 2.0.0;\ntemplate Sub() {\n    signal input i;\n    signal output o[2];\n    o[0] <== i;\n    o[1] <== i;\n}\n'
            'template T() {\n    signal input a;\n    signal input b;\n    var x;\n    var v[2];\n    var m[2][2];\n    component c = Sub();\n    c.i <== a;\n    component d[2];\n    d[0] = Sub();\n    d[1] = Sub();\n    d[0].i <== a;\n    d[1].i <== b;\n    %s\n}\n' % line)


def confirm_expand(dests):
    """findings of the tuple form == findings of the hand-written expansion (ids and anchored signal names), through the native pipeline"""
    import ast as _ast
    dests = _ast.literal_eval(dests) if isinstance(dests, str) else dests
    n = len(dests)
    head = 'pragma circom 2.0.0;\ntemplate T() {\n' + ''.join('    signal input i%d;\n    signal output o%d;\n' % (i, i) for i in range(n))
    lhs = ', '.join('_' if d == '_' else 'o%d' % i for i, d in enumerate(dests)); rhs = ', '.join('i%d * i%d' % (i, i) for i in range(n))
    a = head + '    (%s) <== (%s);\n}\n' % (lhs, rhs)
    b = head + ''.join('    o%d <== i%d * i%d;\n' % (i, i, i) for i, d in enumerate(dests) if d != '_') + '}\n'
    d = tempfile.mkdtemp(prefix='vc18_', dir=common.CACHE)
    outs = []
    try:
        nat = common.Native(common.build_replay('vr_analysis'))
        for k, src in enumerate((a, b)):
            path = os.path.join(d, 'f%d.circom' % k); open(path, 'w').write(src)
            out = nat.ask('analyzefile bn254 ' + path, timeout=30)
            # a finding is identified by its code and the text under its primary label
            toks = []
            for t in out.split()[1:]:
                f = t.split(':'); lo, hi = f[2].split('-')
                toks.append((f[0], src.encode()[int(lo):int(hi)].decode(errors='replace').split('<==')[0].strip() if int(lo) >= 0 else ''))
            outs.append((out.split()[0] if out else '', sorted(toks)))
        nat.close()
    finally:
        shutil.rmtree(d, ignore_errors=True)
    # findings anchored at a declaration are compared with their text, the others (anchored at the assignment, whose text differs by construction) by code
    norm = lambda o: sorted((c, x if x.startswith('signal') else '') for c, x in o[1])
    return outs[0][0] != 'OK' or norm(outs[0]) != norm(outs[1]), {'tuple form': outs[0], 'expansion': outs[1]}, 'the same findings'


def confirm(combo):
    from . import realbin
    slot, shape, sugar = combo
    if slot == 'expand': return confirm_expand(shape)
    if sugar != 'tuple': return None, 'engine-level only', None
    src = source_for(slot, shape)
    if src is None: return None, 'no source form for this combination', None
    d = tempfile.mkdtemp(prefix='vc18_', dir=common.CACHE)
    try:
        open(os.path.join(d, 'a.circom'), 'w').write(src)
        rc, out = realbin.run([os.path.join(d, 'a.circom')], d)
        bad = rc not in (0, 1) or 'panicked' in out or realbin.summary(out) is None
        return bad, {'exit': rc, 'tail': out[-200:]}, 'the template is either rejected with an error or analysed (no panic in the lifter)'
    finally:
        shutil.rmtree(d, ignore_errors=True)


def main(tier, replay=None):
    rep = common.Report('C18', tier)
    if replay:
        d = json.load(open(replay)); bad, got, exp = confirm(tuple(d['combo']))
        print('replay: observed=%s expected=%s -> %s' % (got, exp, 'VIOLATION' if bad else 'holds')); return 1 if bad else 0
    for combo in (('subst_rhe', 'infix_r', 'tuple'), ('if_cond', 'top', 'tuple'), ('ceq_l', 'plain', 'tuple'), ('expand', "['d0', '_', 'd2']", 'tuple'), ('expand', "['_', 'd1']", 'tuple')):
        bad, got, exp = confirm(combo); rep.validated += 1
        if bad: rep.inconclusive.append('fixed program %s: %s' % (combo, got))
    ts = tasks(tier)
    results = common.run_tasks('specs.C18', ts)
    known = common.load_known('C18'); seen = {}
    for r in results:
        if 'error' in r:
            rep.inconclusive.append('task %s: %s' % (r['task'], r['error'][:500])); continue
        rep.add_stats(r['stats'])
        for v in r['violations']:
            combo = tuple(v['extra'].get('combo', ('?', '?', '?')))
            role = {'function': 'remove_tuples_from_statement' if v['kind'] in ('tuple-left', 'expand') else 'ContainsExpression', 'kind': v['kind'], 'class': combo[0]}
            key = json.dumps(role, sort_keys=True)
            if key in seen: continue
            bad, got, exp = confirm(combo); rep.validated += 1
            if bad is False:
                rep.nonrepro.append({'combo': combo, 'violation': v, 'observed': got}); continue
            seen[key] = 1
            k = common.match_known(known, role)
            desc = '%s observed=%s' % (v['msg'], got)
            if k: rep.known_hits.append('%s (%s)' % (k['id'], desc[:300]))
            else:
                rep.violations.append(rep.save_replay(role, {'property': 'C18', 'combo': list(combo), 'violation': v, 'observed': got, 'expected': exp, 'native_replay': bad is True}))
                common.log('VIOLATION detail:', desc)
    if rep.nonrepro and not rep.violations:
        rep.inconclusive.append('%d counterexamples did not reproduce with the real binary, e.g. %s' % (len(rep.nonrepro), json.dumps(rep.nonrepro[0], default=str)[:300]))
    pr = prog()
    rep.bounds = {'statements': '%d statement slots x %d expression shapes x {tuple, anonymous component} = %d combinations (solver variable `combo`)' % (len(STMT_SLOTS), len(EXPR_SHAPES), len(COMBOS))}
    rep.stubs = ['TupleError / AnonymousComponentError report construction']
    rep.assumptions = ['an independent walker over the resulting value decides whether a tuple is left', 'source hash ' + pr.hashes['parser']]
    rep.bounds['expansion'] = 'tuple assignments with 1..4 destinations whose names are symbolic one-character strings (`_` or a letter) and as many or one more source'
    rep.outside = ['anonymous-component expansion (remove_anonymous_from_statement/expression: needs template signatures)', 'tuple assignments whose right-hand side is an anonymous component; findings of the expansion beyond the fixed native scenarios', 'deeper nestings']
    rep.extra['exhaustive'] = True
    return rep.finish()
