"""C11 — curve-dependent checks follow the documented table and thresholds exactly.

All parts execute the real code from MIR (mirsym):
 (a) UsefulConstants::new / prime / prime_size for a symbolic curve: primes and bit sizes.
 (b) <Curve as FromStr>::from_str on symbolic ASCII strings of every length 0..10.
 (c) the two template tables (const arrays evaluated from MIR) == the table in doc/analysis_passes.md
     (Circomlib spelling), and find_bn254_specific_circuits on `c = Name(x)` for every documented name
     plus near misses, with a symbolic curve: flagged iff the table marks (name, curve); never under BN254.
 (d) find_nonstrict_binary_conversion on `c = Num2Bits(n)` / `c = Bits2Num(n)` with symbolic curve,
     definition type, variable type and an optionally known symbolic size n (ALL integers n):
     flagged unless BN254-template-component with n known and n < 254; silent for other curves etc.
 (e) find_unconstrained_less_than (the whole pass) on `n2b = Num2Bits(k); lt = LessThan(8); n2b.in <== x;
     lt.in[0] <== x` with symbolic curve and symbolic k (ALL integers): x counts as range-checked iff
     2^k - 1 <= p/2 for that curve's prime.
"""
import os, re, json
import z3
from . import common
from mirsym.program import Program
from mirsym.engine import Harness, explore, Stats, Unsupported
from mirsym.values import *
from mirsym.models import some, none, model
from mirsym.models_coll import MapV, SetV
from .irbuild import IR

_prog = None
PRIMES = {'Bn254': 21888242871839275222246405745257275088548364400416034343698204186575808495617,
          'Bls12_381': 52435875175126190479447740508185965837690552500527637822603658699938581184513,
          'Goldilocks': 18446744069414584321}
BITS = {'Bn254': 254, 'Bls12_381': 255, 'Goldilocks': 64}
CURVE_NAMES = {'bn254': 'Bn254', 'bls12_381': 'Bls12_381', 'goldilocks': 'Goldilocks'}
NEAR_MISS = ['Num2Bits', 'Bits2Num', 'sign', 'Sign2', 'Poseidon2', 'Bits2Point_strict', 'Point2Bits_strict', 'num2bits_strict', 'AliasCheck ', 'MiMC', 'LessThan', 'SMTVerifierLevels']


def prog():
    global _prog
    if _prog is None: _prog = Program(['algebra', 'structure', 'analysis'])
    return _prog


def doc_table():
    """(template name in Circomlib spelling) -> set of curves marked in doc/analysis_passes.md"""
    txt = open(os.path.join(common.REPO, 'doc/analysis_passes.md')).read()
    rows = {}
    for m in re.finditer(r'^\|\s*`(\w+)`\s*\|\s*(x?)\s*\|\s*(x?)\s*\|\s*$', txt, re.M):
        name = m.group(1)
        name = {'Bits2Point_strict': 'Bits2Point_Strict', 'Point2Bits_strict': 'Point2Bits_Strict'}.get(name, name)
        rows[name] = {c for c, x in (('Goldilocks', m.group(2)), ('Bls12_381', m.group(3))) if x}
    return rows


def lt_threshold(p):
    """largest k with 2^k - 1 <= p/2 (2^k is increasing, so the condition holds exactly for k <= K)"""
    K = -1
    for k in range(0, 400):
        if 2 ** k - 1 <= p // 2: K = k
        else:
            assert all(2 ** j - 1 > p // 2 for j in range(k, 400))
            break
    return K


def tasks(tier):
    ts = [{'part': 'constants'}]
    ts += [{'part': 'fromstr', 'len': n} for n in range(0, 11)]
    names = sorted(doc_table()) + NEAR_MISS
    ts += [{'part': 'bn254', 'name': nm} for nm in names]
    ts += [{'part': 'tables'}]
    for comp in ('Num2Bits', 'Bits2Num', 'Num2Bits_strict'):
        for nargs in (1, 2):
            ts.append({'part': 'nonstrict', 'comp': comp, 'nargs': nargs})
            ts.append({'part': 'nonstrict', 'comp': comp, 'nargs': nargs, 'element': True})       # `c[0] = Num2Bits(n)`: the call sits under an Update
    ts += [{'part': 'lessthan', 'n2b': nm} for nm in ('Num2Bits', 'Num2Bits_strict')]
    return ts


def sym_curve(): return z3.Int('curve')


def curve_base(c, pr):
    vs = pr.defs.enum_variants('Curve')
    return [c >= 0, c < len(vs)], {d: n for n, d, _ in vs}


def capture_reports(h, pattern):
    """stub `X::into_report`: record the warning value, return an opaque report"""
    def f(ex, a, m):
        ex.notes.setdefault('reports', []).append(a[0]); return Opaque('report', a[0])
    h.stub_res.append((re.compile(pattern), f))


def run_task(task):
    pr = prog(); ir = IR(pr); part = task['part']
    h = Harness(pr, 'analysis' if part in ('bn254', 'nonstrict', 'lessthan', 'tables') else 'structure')
    h.notes = {'max_bits': 256}
    stats = Stats(); viols = []
    c = sym_curve(); cbase, cname = curve_base(c, pr)

    if part == 'constants':
        h.inputs = {'curve': c}
        new = pr.method(None, 'UsefulConstants', 'new'); size = pr.method(None, 'UsefulConstants', 'prime_size'); prime = pr.method(None, 'UsefulConstants', 'prime')

        def entry(ex):
            consts = ex.call_mir(new, [Ref([Enum('Curve', c)], 0)])
            return ex.call_mir(prime, [Ref([consts], 0)]), ex.call_mir(size, [Ref([consts], 0)]), ir.get(consts, 'curve')

        def post(ex, res):
            p, bits, cv = res
            for d, n in cname.items():
                ex.oblige(simp(z3.Implies(c == d, zint(deref(p).t) == PRIMES[n])), 'prime', 'prime of %s is the documented scalar field order' % n)
                ex.oblige(simp(z3.Implies(c == d, zint(bits) == BITS[n])), 'prime-size', 'bit size of %s is %d' % (n, BITS[n]))
            ex.oblige(simp(eq(ex.discriminant(cv), c)), 'curve', 'constants remember the curve they were built for')
        st, vs, inc = explore(h, entry, None, post=post, base=cbase, stats=stats, seed=common.seed())
        viols += vs

    elif part == 'fromstr':
        n = task['len']
        chars = [z3.Int('s%d' % i) for i in range(n)]
        h.inputs = {'s%d' % i: ch for i, ch in enumerate(chars)}
        h.stub_res.append((re.compile(r'anyhow::.*|(?:anyhow::)?__private::.*|.*format_err.*'), lambda ex, a, m: Opaque('anyhow')))
        fn = pr.method('FromStr', 'Curve', 'from_str')
        base = [z3.And(ch >= 0, ch < 128) for ch in chars]
        lower = [z3.If(z3.And(ch >= 65, ch <= 90), ch + 32, ch) for ch in chars]

        def post(ex, res):
            for text, variant in CURVE_NAMES.items():
                is_it = z3.And(*[lower[i] == ord(text[i]) for i in range(n)]) if len(text) == n else z3.BoolVal(False)
                if res.var == 'Ok':
                    got = res.f[0]
                    ex.oblige(simp(z3.Implies(is_it, eq(ex.discriminant(got), [d for d, nm in cname.items() if nm == variant][0]))), 'curve-name', 'spelling of %s maps to %s' % (text, variant))
                else:
                    ex.oblige(simp(z3.Not(is_it)), 'curve-name', 'every case variant of `%s` is accepted' % text)
            if res.var == 'Ok':
                anyname = z3.Or(*[z3.And(*[lower[i] == ord(t[i]) for i in range(n)]) for t in CURVE_NAMES if len(t) == n] + [z3.BoolVal(False)])
                ex.oblige(simp(anyname), 'curve-name', 'nothing but the three curve names is accepted')
        st, vs, inc = explore(h, fn, lambda ex: [StrV(chars)], post=post, base=base, stats=stats, seed=common.seed())
        viols += vs

    elif part == 'tables':
        table = doc_table()

        def entry(ex):
            fns = pr.crates['analysis']
            g = [f for nm, f in fns.items() if nm.endswith('PROBLEMATIC_GOLDILOCK_TEMPLATES')]
            b = [f for nm, f in fns.items() if nm.endswith('PROBLEMATIC_BLS12_381_TEMPLATES')]
            if len(g) != 1 or len(b) != 1: raise Unsupported('table constants not found in MIR')
            return ex.call_mir(g[0], []), ex.call_mir(b[0], [])

        def post(ex, res):
            gold = sorted(deref(x).concrete() for x in deref(res[0]).items); bls = sorted(deref(x).concrete() for x in deref(res[1]).items)
            ex.oblige(gold == sorted(k for k, v in table.items() if 'Goldilocks' in v), 'table', 'Goldilocks table == documented table (got %s)' % gold)
            ex.oblige(bls == sorted(k for k, v in table.items() if 'Bls12_381' in v), 'table', 'BLS12-381 table == documented table (got %s)' % bls)
            ex.oblige(len(table) == 26, 'table', 'the documented table has 26 rows')
        st, vs, inc = explore(h, entry, None, post=post, stats=stats)
        viols += vs

    elif part == 'bn254':
        name = task['name']; table = doc_table()
        vt = z3.Int('vartype')       # 0 component, 1 local, 2 signal, 3 unknown
        h.inputs = {'curve': c, 'vartype': vt}
        capture_reports(h, r'(?:bn254_specific_circuit::)?Bn254SpecificCircuitWarning::into_report')
        fn = pr.find('find_bn254_specific_circuits', crate='analysis')

        def mk(ex):
            k = ex.concretize(vt, 0, 3)
            ex.notes['vt'] = k; ex.notes['reports'] = []
            ty = [ir.vtype('component'), ir.vtype('local'), ir.vtype('signal'), None][k]
            stmt = ir.subst('c', 'AssignLocalOrComponent', ir.call(name, [ir.variable('x')], meta=ir.meta(10, 20)), meta=ir.meta(5, 25, vtype=ty))
            cfg = ir.cfg(ex, 'T', Enum('Curve', c), [ir.block(0, [stmt])])
            return [Ref([cfg], 0)]

        def post(ex, res):
            nrep = len(deref(res).items); k = ex.notes['vt']
            for d, cn in cname.items():
                want = (cn in table.get(name, set())) and k in (0, 3)
                ex.oblige(simp(z3.Implies(c == d, nrep == (1 if want else 0))), 'bn254-table', '%s under %s: flagged iff the documented table marks the pair (component initialisation)' % (name, cn))
            if nrep:
                w = ex.notes['reports'][0]
                ex.oblige(ir.get(w, 'template_name').concrete() == name and simp(eq(ir.get(w, 'file_location').f[0], 10)), 'bn254-table', 'the report names the template and is anchored at the call')
        st, vs, inc = explore(h, fn, mk, post=post, base=cbase + [vt >= 0, vt <= 3], stats=stats, seed=common.seed())
        viols += vs

    elif part == 'nonstrict':
        comp = task['comp']; nargs = task['nargs']
        n = z3.Int('n'); known = z3.Bool('known'); vt = z3.Int('vartype'); dt = z3.Int('deftype')
        h.inputs = {'curve': c, 'n': n, 'known': known, 'vartype': vt, 'deftype': dt}
        capture_reports(h, r'(?:nonstrict_binary_conversion::)?NonStrictBinaryConversionWarning::into_report')
        fn = pr.find('find_nonstrict_binary_conversion', crate='analysis')
        dvs = pr.defs.enum_variants('DefinitionType')

        def mk(ex):
            k = ex.concretize(vt, 0, 3); kn = ex.decide(known)
            ex.notes['vt'] = k; ex.notes['kn'] = kn; ex.notes['reports'] = []
            ty = [ir.vtype('component'), ir.vtype('local'), ir.vtype('signal'), None][k]
            arg = ir.variable('m', meta=ir.meta(12, 13, value=ir.fe(n) if kn else None))
            args = [arg] + [ir.number(1)] * (nargs - 1)
            call = ir.call(comp, args, meta=ir.meta(10, 20))
            if task.get('element'): call = ir.update('c', [ir.array_access(ir.number(0))], call, meta=ir.meta(5, 25, vtype=ty))
            stmt = ir.subst('c', 'AssignLocalOrComponent', call, meta=ir.meta(5, 25, vtype=ty))
            cfg = ir.cfg(ex, 'T', Enum('Curve', c), [ir.block(0, [stmt])], def_type=Enum('DefinitionType', dt))
            return [Ref([cfg], 0)]

        def post(ex, res):
            nrep = len(deref(res).items); k = ex.notes['vt']; kn = ex.notes['kn']
            bn = [d for d, nm in cname.items() if nm == 'Bn254'][0]
            tmpl = [d for nm, d, _ in dvs if nm == 'Template'][0]
            applicable = comp in ('Num2Bits', 'Bits2Num') and nargs == 1 and k in (0, 3)
            safe = z3.And(kn, n < 254) if kn else z3.BoolVal(False)
            want = z3.And(c == bn, dt == tmpl, applicable, z3.Not(safe))
            ex.oblige(simp(eq(nrep, z3.If(want, 1, 0))), 'nonstrict', '%s(n): flagged iff BN254, template, component initialisation and not (n known and n < 254)' % comp)
        st, vs, inc = explore(h, fn, mk, post=post, base=cbase + [n >= 0, vt >= 0, vt <= 3, dt >= 0, dt < len(dvs)], stats=stats, seed=common.seed())
        viols += vs

    elif part == 'lessthan':
        k = z3.Int('k'); known = z3.Bool('known')
        h.inputs = {'curve': c, 'k': k, 'known': known}
        capture_reports(h, r'(?:unconstrained_less_than::)?UnconstrainedLessThanWarning::into_report')
        fn = pr.find('find_unconstrained_less_than', crate='analysis')
        comp = ir.vtype('component')

        def mk(ex):
            kn = ex.decide(known); ex.notes['kn'] = kn; ex.notes['reports'] = []
            karg = ir.number(0, meta=ir.meta(30, 31, value=ir.fe(k) if kn else None)); karg.f[1] = BigV(k)
            x = lambda: ir.variable('x', meta=ir.meta(40, 41, vtype=ir.vtype('signal', 'Input')))
            s1 = ir.subst('n2b', 'AssignLocalOrComponent', ir.call(task['n2b'], [karg]), meta=ir.meta(1, 2, vtype=comp))
            s2 = ir.subst('lt', 'AssignLocalOrComponent', ir.call('LessThan', [ir.number(8)]), meta=ir.meta(3, 4, vtype=comp))
            s3 = ir.subst('n2b', 'AssignConstraintSignal', ir.update('n2b', [ir.component_access('in')], x()), meta=ir.meta(5, 6, vtype=comp))
            s4 = ir.subst('lt', 'AssignConstraintSignal', ir.update('lt', [ir.component_access('in'), ir.array_access(ir.number(0))], x()), meta=ir.meta(7, 8, vtype=comp))
            cfg = ir.cfg(ex, 'T', Enum('Curve', c), [ir.block(0, [s1, s2, s3, s4])])
            return [Ref([cfg], 0)]

        def post(ex, res):
            nrep = len(deref(res).items); kn = ex.notes['kn']
            for d, cn in cname.items():
                K = lt_threshold(PRIMES[cn])
                checked = z3.And(kn, k <= K) if (kn and task['n2b'] == 'Num2Bits') else z3.BoolVal(False)
                ex.oblige(simp(z3.Implies(c == d, eq(nrep, z3.If(checked, 0, 1)))), 'lessthan-threshold',
                          'under %s an input of LessThan counts as range-checked by Num2Bits(k) iff 2^k - 1 <= p/2 (k <= %d)' % (cn, K))
        st, vs, inc = explore(h, fn, mk, post=post, base=cbase + [k >= 0], stats=stats, seed=common.seed())
        viols += vs
    for v in viols: v.extra['task'] = task
    return {'stats': common.pack_stats(stats), 'violations': [common.pack_violation(v) for v in viols]}


# ----------------------------------------------------------------------------- replay
NAT = None


def analyze(curve, src):
    global NAT
    if NAT is None: NAT = common.Native(common.build_replay('vr_analysis'))
    return NAT.ask('analyze %s %s' % (curve, src.encode().hex()), timeout=30)


def count_id(out, rid):
    return sum(1 for tok in out.split()[1:] if tok.startswith(rid + ':')) if out.startswith('OK') else None


CURVE_ARG = {'Bn254': 'bn254', 'Bls12_381': 'bls12_381', 'Goldilocks': 'goldilocks'}


def confirm(task, v, pr):
    """-> (violated?, observed, expected) by running the real parser + lifter + passes on a generated template"""
    m = v['model']; part = task['part']
    cname = {d: n for n, d, _ in pr.defs.enum_variants('Curve')}
    curve = cname.get(m.get('curve', 0), 'Bn254')
    if part == 'bn254':
        if m.get('vartype', 0) not in (0,): return None, 'unrealizable variable type', None
        src = 'template T() {\n    signal input x;\n    component c = %s(x);\n}\n' % task['name']
        out = analyze(CURVE_ARG[curve], src); got = count_id(out, 'CS0016') if count_id(out, 'CS0016') is not None else out
        want = 1 if curve in doc_table().get(task['name'], set()) else 0
        return got != want, got, want
    if part == 'nonstrict':
        if m.get('vartype', 0) != 0: return None, 'unrealizable variable type', None
        dts = {d: n for n, d, _ in pr.defs.enum_variants('DefinitionType')}
        dtn = dts.get(m.get('deftype', 0))
        if dtn == 'Function': return None, 'components cannot be declared in functions', None
        arg = str(m.get('n', 0)) if m.get('known') else 'n'
        args = ', '.join([arg] + ['1'] * (task['nargs'] - 1))
        decl = 'component c[2];\n    c[0] = %s(%s);' % (task['comp'], args) if task.get('element') else 'component c = %s(%s);' % (task['comp'], args)
        src = 'template %sT(n) {\n    signal input x;\n    %s\n}\n' % ('custom ' if dtn == 'CustomTemplate' else '', decl)
        out = analyze(CURVE_ARG[curve], src); got = count_id(out, 'CS0012') if out.startswith('OK') else out
        safe = m.get('known') and m.get('n', 0) < 254
        want = 1 if (curve == 'Bn254' and dtn == 'Template' and task['comp'] in ('Num2Bits', 'Bits2Num') and task['nargs'] == 1 and not safe) else 0
        return got != want, got, want
    if part == 'lessthan':
        karg = str(m.get('k', 0)) if m.get('known') else 'n'
        src = ('template T(n) {\n    signal input x;\n    signal output out;\n    component n2b = %s(%s);\n    component lt = LessThan(8);\n'
               '    n2b.in <== x;\n    lt.in[0] <== x;\n    lt.in[1] <== x;\n    out <== lt.out;\n}\n') % (task['n2b'], karg)
        out = analyze(CURVE_ARG[curve], src); got = count_id(out, 'CS0014') if out.startswith('OK') else out
        K = lt_threshold(PRIMES[curve])
        want = 0 if (m.get('known') and task['n2b'] == 'Num2Bits' and m.get('k', 0) <= K) else 1
        return got != want, got, want
    if part == 'fromstr':
        s = ''.join(chr(m.get('s%d' % i, 97)) for i in range(task['len']))
        if any(ch.isspace() for ch in s) or not s: return None, 'string not passable on a command line token', None
        out = analyze(s, 'template T() {\n    signal input x;\n}\n')
        got = 'rejected' if out == 'BADCURVE' else 'accepted'
        want = 'accepted' if s.lower() in CURVE_NAMES else 'rejected'
        return got != want, got, want
    return None, 'engine-level only', None


def main(tier, replay=None):
    rep = common.Report('C11', tier)
    pr = prog()
    if replay:
        d = json.load(open(replay))
        bad, got, exp = confirm(d['task'], d['violation'], pr)
        print('replay: observed=%s expected=%s -> %s' % (got, exp, 'VIOLATION' if bad else 'holds')); return 1 if bad else 0
    # translator validation: fixed programs through the native pipeline against the oracle tables
    table = doc_table()
    for cn in ('Bls12_381', 'Goldilocks', 'Bn254'):
        for name in ('Sign', 'Poseidon', 'Num2Bits'):
            bad, got, exp = confirm({'part': 'bn254', 'name': name}, {'model': {'curve': [d for n, d, _ in pr.defs.enum_variants('Curve') if n == cn][0], 'vartype': 0}}, pr); rep.validated += 1
            if bad: rep.inconclusive.append('fixed program: %s under %s flagged %s, documented %s' % (name, cn, got, exp))
        K = lt_threshold(PRIMES[cn])
        for kk in (K, K + 1):
            bad, got, exp = confirm({'part': 'lessthan', 'n2b': 'Num2Bits'}, {'model': {'curve': [d for n, d, _ in pr.defs.enum_variants('Curve') if n == cn][0], 'k': kk, 'known': True}}, pr); rep.validated += 1
            if bad: rep.inconclusive.append('fixed program: LessThan with Num2Bits(%d) under %s: %s reports, oracle %s' % (kk, cn, got, exp))
    for p in PRIMES.values():
        import sympy
        if not sympy.isprime(p): rep.inconclusive.append('oracle prime %d is not prime' % p)
    ts = tasks(tier)
    results = common.run_tasks('specs.C11', ts)
    known = common.load_known('C11'); seen = {}
    for r in results:
        if 'error' in r:
            rep.inconclusive.append('task %s: %s' % (r['task'], r['error'][:500])); continue
        rep.add_stats(r['stats'])
        for v in r['violations']:
            t = r['task']
            bad, got, exp = confirm(t, v, pr); rep.validated += 1
            role = {'function': t['part'] + ('/' + t.get('name', t.get('comp', t.get('n2b', ''))) if t['part'] in ('bn254', 'nonstrict', 'lessthan') else ''), 'kind': v['kind'], 'class': 'any'}
            if bad is False:
                rep.nonrepro.append({'task': t, 'violation': v, 'observed': got, 'expected': exp}); continue
            key = json.dumps(role, sort_keys=True)
            if key in seen: continue
            seen[key] = 1
            k = common.match_known(known, role)
            desc = '%s [%s] model %s observed=%s expected=%s' % (v['msg'], t, v['model'], got, exp)
            if k: rep.known_hits.append('%s (%s)' % (k['id'], desc[:200]))
            else:
                rep.violations.append(rep.save_replay(role, {'property': 'C11', 'task': t, 'violation': v, 'observed': got, 'expected': exp, 'native_replay': bad is True}))
                common.log('VIOLATION detail:', desc)
    if rep.nonrepro and not rep.violations:
        rep.inconclusive.append('%d solver models did not reproduce natively, e.g. %s' % (len(rep.nonrepro), json.dumps(rep.nonrepro[0], default=str)[:400]))
    if NAT: NAT.close()
    rep.bounds = {'curves': 'all three (symbolic)', 'template names': 'the 26 documented names + %d near misses' % len(NEAR_MISS), 'sizes': 'ALL integers n and k (symbolic, unbounded), known or unknown',
                  'curve name strings': 'every ASCII string of length 0..10'}
    rep.stubs = ['*Warning::into_report (argument captured)', 'anyhow error construction', 'log macros disabled']
    rep.assumptions = ['oracle primes are the documented scalar field orders (checked prime with sympy)', 'threshold K(p) = max k with 2^k-1 <= p/2 computed with exact integers (monotonicity of 2^k checked up to k=400)',
                       'the value knowledge attached to a size argument is sound (C06)', 'source hash ' + pr.hashes['analysis'] + '/' + pr.hashes['structure']]
    rep.outside = ['non-ASCII curve names', 'clap argument parsing itself']
    return rep.finish()
