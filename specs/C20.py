"""C20 — cutting propagation short never makes a claim wrong.

Engine: mirsym over the MIR of Cfg::propagate_values / Cfg::propagate_degrees (and, below them, the real
BasicBlock/Statement/Expression propagation rules) on small IR control-flow graphs built by the harness.
The clock is a stub: Instant::elapsed returns arbitrary non-decreasing durations, so the pass index at
which the time box fires is a solver variable (including "before anything changed" and "never").

Decided on every path (= every bail-out index):
  * the function returns normally;
  * once elapsed() > MAX_ANALYSIS_DURATION has been observed no propagation rule runs again and the IR
    annotations at return are exactly those present when the clock was read (nothing is defaulted,
    cleared or "completed" on the way out);
  * the clock is read once per pass and nowhere else.
Hence a cut run ends in the state some prefix of the un-cut iteration had; every rule application is
one-step sound from any sound state (C06-X / C07-X, same engine), so by induction every fact attached at
any cut point is sound.
"""
import re, json
import z3
from . import common
from mirsym.program import Program
from mirsym.engine import Harness, explore, Stats, Unsupported
from mirsym.values import *
from mirsym.models import some, none, val_eq
from mirsym.models_coll import MapV, SetV
from .irbuild import IR

_prog = None


def prog():
    global _prog
    if _prog is None: _prog = Program(['algebra', 'structure'])
    return _prog


SHAPES = ['straight', 'branch', 'loop']


def tasks(tier):
    ts = [{'shape': s, 'which': w, 'deftype': d} for s in SHAPES for w in ('values', 'degrees') for d in ('Template', 'Function')]
    # whole programs of the C09 family under the symbolic clock: whatever is attached when the propagation is cut short is sound
    from . import C09
    nv = 120 if tier == 'quick' else 1146; nd = 40 if tier == 'quick' else 1080
    step = 12
    for dt in ('Template', 'Function'):
        ts += [{'shape': 'programs', 'which': 'values', 'deftype': dt, 't': {'lo': i, 'hi': min(nv, i + step), 'tier': 'quick', 'dt': dt, 'mode': 'values', 'clock': True}} for i in range(0, nv, step)]
    ts += [{'shape': 'programs', 'which': 'degrees', 'deftype': 'Template', 't': {'lo': i, 'hi': min(nd, i + step), 'tier': 'quick', 'dt': 'Template', 'mode': 'degrees', 'clock': True}} for i in range(0, nd, step)]
    return ts


def build_cfg(ex, ir, shape, deftype, lit):
    """small SSA-form IR graphs; `lit` are symbolic literals"""
    L = lambda: ir.vtype('local'); n0 = ir.name('n', version=0)
    V = lambda nm, ver=None: ir.variable(ir.name(nm, version=ver))
    if shape == 'straight':
        b0 = [ir.decl([ir.name('x', version=0)], L()), ir.decl([ir.name('in')], ir.vtype('signal', 'Input')), ir.decl([ir.name('out')], ir.vtype('signal', 'Output')),
              ir.subst(ir.name('x', version=0), 'AssignLocalOrComponent', ir.infix('Add', ir.number(lit[0]), ir.number(lit[1]))),
              ir.subst(ir.name('out'), 'AssignConstraintSignal', ir.infix('Mul', V('in'), V('x', 0))),
              ir.subst(ir.name('out'), 'AssignSignal', ir.prefix('Complement', V('in')))]
        blocks = [ir.block(0, b0)]
    elif shape == 'branch':
        b0 = [ir.decl([ir.name('x', version=v) for v in range(4)], L()),
              ir.subst(ir.name('x', version=0), 'AssignLocalOrComponent', ir.number(lit[0])),
              ir.ifelse(ir.infix('Eq', V('n', 0), ir.number(1)), 1, 2)]
        b1 = [ir.subst(ir.name('x', version=1), 'AssignLocalOrComponent', ir.number(lit[1]))]
        b2 = [ir.subst(ir.name('x', version=2), 'AssignLocalOrComponent', ir.infix('Mul', V('x', 0), ir.number(lit[2])))]
        b3 = [ir.subst(ir.name('x', version=3), 'AssignLocalOrComponent', ir.phi([ir.name('x', version=1), ir.name('x', version=2)])),
              ir.ret(ir.infix('Add', V('x', 3), V('n', 0)))]
        blocks = [ir.block(0, b0, [], [1, 2]), ir.block(1, b1, [0], [3]), ir.block(2, b2, [0], [3]), ir.block(3, b3, [1, 2], [])]
    else:
        b0 = [ir.decl([ir.name('i', version=v) for v in range(3)], L()), ir.subst(ir.name('i', version=0), 'AssignLocalOrComponent', ir.number(lit[0]))]
        b1 = [ir.subst(ir.name('i', version=1), 'AssignLocalOrComponent', ir.phi([ir.name('i', version=0), ir.name('i', version=2)])),
              ir.ifelse(ir.infix('Lesser', V('i', 1), V('n', 0)), 2, 3)]
        b2 = [ir.subst(ir.name('i', version=2), 'AssignLocalOrComponent', ir.infix('Add', V('i', 1), ir.number(lit[1])))]
        b3 = [ir.ret(V('i', 1))]
        blocks = [ir.block(0, b0, [], [1]), ir.block(1, b1, [0, 2], [2, 3], loop_depth=0), ir.block(2, b2, [1], [1], loop_depth=1), ir.block(3, b3, [1], [])]
    return ir.cfg(ex, 'd', 'Bn254', blocks, def_type=deftype, params=[n0])


def deep_same(a, b):
    """purely structural comparison of two engine values (no user PartialEq: Meta's ignores the knowledge fields)"""
    from mirsym.models_coll import MapV, SetV, BitSetV
    a = deref(a); b = deref(b)
    if type(a) is not type(b):
        if isinstance(a, (int, bool)) and isinstance(b, (int, bool)): return a == b
        return False
    if isinstance(a, (int, bool, str)): return a == b
    if a is None: return b is None
    if is_sym(a): return simp(eq(a, b)) is True
    if isinstance(a, Struct): return a.ty == b.ty and len(a.f) == len(b.f) and all(deep_same(x, y) for x, y in zip(a.f, b.f))
    if isinstance(a, Enum): return a.var == b.var and len(a.f) == len(b.f) and all(deep_same(x, y) for x, y in zip(a.f, b.f)) if isinstance(a.var, str) else (simp(eq(a.var, b.var)) is True)
    if isinstance(a, BoxV): return deep_same(a.f[0], b.f[0])
    if isinstance(a, BigV): return deep_same(a.t, b.t)
    if isinstance(a, VecV): return len(a.items) == len(b.items) and all(deep_same(x, y) for x, y in zip(a.items, b.items))
    if isinstance(a, StrV): return len(a.chars) == len(b.chars) and all(deep_same(x, y) for x, y in zip(a.chars, b.chars))
    if isinstance(a, SetV): return len(a.items) == len(b.items) and all(deep_same(x, y) for x, y in zip(a.items, b.items))
    if isinstance(a, BitSetV): return all(deep_same(x, y) for x, y in zip(a.bits, b.bits))
    if isinstance(a, MapV): return len(a.entries) == len(b.entries) and all(deep_same(x[0], y[0]) and deep_same(x[1], y[1]) for x, y in zip(a.entries, b.entries))
    if isinstance(a, Opaque): return a.tag == b.tag
    return a is b


def run_task(task):
    if task['shape'] == 'programs':
        from . import C09
        return C09.run_task(task['t'])
    pr = prog(); ir = IR(pr)
    h = Harness(pr, 'structure')
    h.notes = {'max_bits': 254, 'prime_modulus': True}
    h.step_budget = 3_000_000
    R = lambda p, f: h.stub_res.append((re.compile(p), f))
    lit = [z3.Int('lit%d' % i) for i in range(3)]
    NT = 40
    ts = [z3.Int('t%d' % i) for i in range(NT)]
    h.inputs = dict([('lit%d' % i, l) for i, l in enumerate(lit)] + [('t%d' % i, t) for i, t in enumerate(ts)])
    P = 21888242871839275222246405745257275088548364400416034343698204186575808495617
    base = [z3.And(l >= 0, l < P) for l in lit] + [ts[0] >= 0] + [ts[i] <= ts[i + 1] for i in range(NT - 1)]
    which = task['which']

    R(r'(?:std::time::)?Instant::now', lambda ex, a, m: Opaque('instant'))
    R(r'(?:std::time::|core::time::)?Duration::from_secs', lambda ex, a, m: Opaque('dur', a[0]))

    def elapsed(ex, a, m):
        st = ex.notes['st']; k = st['reads']
        if k >= NT: raise Unsupported('more than %d passes' % NT)
        st['reads'] = k + 1
        st['snap'] = clone_val(st['cfg'])          # the annotations present when the clock is read
        st['calls_at_read'] = st['calls']
        return Opaque('dur', ts[k])
    R(r'(?:std::time::)?Instant::elapsed', elapsed)

    def dur_gt(ex, a, m):
        x = deref(a[0]); y = deref(a[1])
        r = simp(zint(x.data) > zint(y.data))
        r = ex.decide(r) if is_sym(r) else r
        if r and 'fired' not in ex.notes['st']: ex.notes['st']['fired'] = ex.notes['st']['reads'] - 1
        return r
    R(r'<(?:std::time::|core::time::)?Duration as PartialOrd>::gt', dur_gt)

    blk = pr.method(None, 'BasicBlock', 'propagate_%s' % which)

    def block_prop(ex, a, m):
        st = ex.notes['st']; st['calls'] += 1
        if 'fired' in st: st['after_fire'] += 1
        return ex.call_mir(blk, a)
    R(r'(?:basic_block::)?BasicBlock::propagate_%s' % which, block_prop)

    fn = pr.method(None, 'Cfg', 'propagate_%s' % which)
    stats = Stats()

    def mk(ex):
        cfg = build_cfg(ex, ir, task['shape'], task['deftype'], lit)
        ex.notes['st'] = {'reads': 0, 'calls': 0, 'after_fire': 0, 'cfg': cfg}
        return [Ref([cfg], 0)]

    def post(ex, res):
        st = ex.notes['st']
        ex.oblige(st['reads'] >= 1, 'clock', 'the clock is consulted at the end of every pass')
        if 'fired' in st:
            ex.oblige(st['after_fire'] == 0, 'work-after-bailout', 'no propagation rule runs after the time box fired (pass %d)' % st['fired'])
            same = deep_same(st['snap'], st['cfg'])
            ex.oblige(same, 'state-after-bailout', 'annotations at return are exactly those present when the clock was read (bail-out at pass %d)' % st['fired'])
            ex.oblige(st['reads'] == st['fired'] + 1, 'clock', 'the loop ends at the bail-out')
    st_, vs, inc = explore(h, fn, mk, post=post, base=base, stats=stats, seed=common.seed())
    for v in vs: v.extra['task'] = task
    return {'stats': common.pack_stats(stats), 'violations': [common.pack_violation(v) for v in vs]}


def main(tier, replay=None):
    rep = common.Report('C20', tier)
    if replay:
        print('replay: C20 counterexamples are re-executed by the engine only (the clock cannot be forced natively); see DESIGN.md'); return 0
    ts = tasks(tier)
    results = common.run_tasks('specs.C20', ts)
    known = common.load_known('C20'); seen = {}
    for r in results:
        if 'error' in r:
            rep.inconclusive.append('task %s: %s' % (r['task'], r['error'][:500])); continue
        rep.add_stats(r['stats'])
        for v in r['violations']:
            role = {'function': 'Cfg::propagate_' + r['task']['which'], 'kind': v['kind'], 'class': 'panic' if v['kind'] == 'panic' else 'any'}
            key = json.dumps(role, sort_keys=True)
            if key in seen: continue
            seen[key] = 1
            k = common.match_known(known, role)
            desc = '%s (shape %s, %s) model %s' % (v['msg'], r['task']['shape'], r['task']['deftype'], v['model'])
            if k: rep.known_hits.append('%s (%s)' % (k['id'], desc[:200]))
            else:
                # a symbolic clock cannot be forced on the native binary: the violation is reported from the engine run
                # (deterministic re-execution of the same path is the replay)
                rep.violations.append(rep.save_replay(role, {'property': 'C20', 'task': r['task'], 'violation': v}))
                common.log('VIOLATION detail:', desc)
    pr = prog()
    rep.bounds = {'programs': 'the first %d (values) / %d (degrees) structured programs of the C09 families through the real lifter, SSA and propagation with the clock as a solver variable (<= 48 reads): every value / degree bound attached at any cut point holds at every dynamic instance of a reference execution' % ((120, 40) if tier == 'quick' else (1146, 1080)),
                  'graphs': 'three SSA-form IR graphs (straight line with constraint and <--, branch with phi join, loop with phi cycle) x template/function, literals symbolic over the whole field',
                  'passes': 'every bail-out index from the first pass to the fixpoint (<= 40 clock reads), and no bail-out'}
    rep.stubs = ['Instant::now / Instant::elapsed (arbitrary non-decreasing durations)', 'Duration::from_secs and Duration > Duration (compare seconds)', 'log macros disabled']
    rep.assumptions = ['one-step soundness of every rule from any sound state is C06-X / C07-X (same engine, checked under C06/C07)', 'source hash ' + pr.hashes['structure']]
    rep.outside = ['wall-clock behaviour (the 10 s constant itself)', 'termination of the un-cut fixpoint on arbitrary programs', 'graphs other than the three shapes']
    return rep.finish()
