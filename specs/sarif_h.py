"""C03, SARIF clause: the SARIF result of a report has the same rule id, level, message and positions as the report.

Engine: mirsym over the MIR of <Report as ToSarif>::to_sarif, <ReportLabel as ToSarif>::to_sarif, FileID::to_uri and
MessageCategory::to_level, ReportCode::id.  The serde_sarif builders (external crate, derive_builder pattern) are modelled
generically: `XBuilder::default()` is an empty record, a setter stores its argument under the setter's name, `build()` returns
the record; nothing else about SARIF is encoded.  FileLibrary::to_storage().location(file, offset) and .get(file).name()
are stubs returning values keyed by (file, offset) / file.

Input: a report with symbolic category, a report code from a small list, 0..2 primary and 0..2 secondary labels whose file
ids and byte offsets are symbolic.  Decided: level = error / warning / note for Error / Warning / Info; ruleId = the report's
id; message text = the report's message; one location per primary label and one related location per secondary label, in
order, each with the uri of the label's file and the region (start line/column, end line/column) the file library gives for
the label's start and end offsets.
"""
import re, json
import z3
from . import common
from mirsym.engine import Harness, explore, Stats, Unsupported
from mirsym.values import *
from mirsym.models import some, none, ok, err, as_str
from .irbuild import IR


class Rec:
    """record built by a serde_sarif builder"""
    rust_type = 'SarifRecord'
    def __init__(self, kind, fields=None): self.kind = kind; self.fields = dict(fields or {}); self.ty = 'sarif::' + kind
    def clone(self): return Rec(self.kind, self.fields)
    def __repr__(self): return '%s%r' % (self.kind, self.fields)


def install_builders(h):
    R = lambda p, f: h.stub_res.append((re.compile(p), f))
    B = r'(?:serde_sarif::)?(?:sarif::)?(\w+)Builder'
    R(r'<' + B + r' as Default>::default', lambda ex, a, m: Rec(m.group(1) + 'Builder'))
    def setter(ex, a, m):
        b = deref(a[0]); b.fields[m.group(2)] = a[1]; return a[0]
    def build(ex, a, m):
        b = deref(a[0]); return ok(Rec(m.group(1), b.fields))
    R(B + r'::build', build)
    R(B + r'::(\w+)(?:::<.*>)?', setter)
    R(r'<(?:utils::)?(?:sarif_conversion::)?SarifError as From<.*>>::from', lambda ex, a, m: Opaque('sariferr'))


def tasks(tier):
    return [{'kind': 'sarif', 'np': np_, 'ns': ns, 'code': c, 'prop': 'C03'} for np_ in (0, 1, 2) for ns in (0, 1, 2) for c in (0, 1, 2)]


def run_task(pr, task):
    from .C03 import CODES, IDS, NFILES, cat_discr
    ir = IR(pr)
    h = Harness(pr, 'structure'); stats = Stats()
    h.notes['render_format'] = True
    install_builders(h)
    R = lambda p, f: h.stub_res.append((re.compile(p), f))
    disc = cat_discr(pr); lo, hi = min(disc.values()), max(disc.values())
    cat = z3.Int('cat'); h.inputs['cat'] = cat
    base = [cat >= lo, cat <= hi]
    np_, ns = task['np'], task['ns']; code = CODES[task['code']]
    labs = []
    for i in range(np_ + ns):
        f = z3.Int('file%d' % i); a = z3.Int('start%d' % i); b = z3.Int('end%d' % i)
        for v in (f, a, b): h.inputs[str(v)] = v
        base += [f >= 0, f < NFILES, a >= 0, b >= a, b <= 50]
        labs.append((f, a, b))
    lab = lambda i: Struct('Label', [Opaque('style'), labs[i][0], Struct('ops::Range', [labs[i][1], labs[i][2]]), StrV.of('label %d' % i)])
    # file library: location(file, offset) -> Location { line_number, column_number } recorded symbolically
    R(r'(?:\w+::)*FileLibrary::to_storage', lambda ex, a, m: Ref([Opaque('storage')], 0))
    LINE = z3.Function('line_of', z3.IntSort(), z3.IntSort(), z3.IntSort()); COL = z3.Function('column_of', z3.IntSort(), z3.IntSort(), z3.IntSort())

    def location(ex, a, m):
        f_, o_ = zint(deref(a[1])), zint(deref(a[2]))
        ex.assume(z3.And(LINE(f_, o_) >= 1, LINE(f_, o_) < 1000, COL(f_, o_) >= 1, COL(f_, o_) < 1000))
        return ok(Struct('Location', [LINE(f_, o_), COL(f_, o_)]))
    R(r'<(?:codespan_reporting::files::)?SimpleFiles<.*> as (?:codespan_reporting::files::)?Files<.*>>::location', location)
    R(r'(?:codespan_reporting::files::)?SimpleFiles::<.*>::get', lambda ex, a, m: ok(Ref([Opaque('simplefile', a[1])], 0)))
    # the name of file k is the string "f<k>" (k symbolic): the uri must end in the digit of the label's file
    R(r'(?:codespan_reporting::files::)?SimpleFile::<.*>::name', lambda ex, a, m: Ref([StrV([102, simp(48 + zint(deref(deref(a[0]).data)))])], 0))
    R(r'<(?:std::string::)?String as Into<(?:std::path::)?PathBuf>>::into|<(?:std::path::)?PathBuf as From<(?:std::string::)?String>>::from', lambda ex, a, m: a[0])
    R(r'(?:std::path::)?Path::to_str', lambda ex, a, m: some(a[0]))
    R(r'<(?:std::path::)?PathBuf as (?:std::ops::)?Deref>::deref', lambda ex, a, m: a[0])
    fn = pr.method('ToSarif', 'Report', 'to_sarif')
    label_fn = pr.method('ToSarif', 'ReportLabel', 'to_sarif')
    h.trait_binds[('Label', 'ToSarif', 'to_sarif')] = lambda ex, a: ex.call_mir(label_fn, list(a))
    uri_fn = [f for n, f in pr.crates['structure'].items() if n.endswith('>::to_uri')][0]
    h.trait_binds[('usize', 'ToUri', 'to_uri')] = lambda ex, a: ex.call_mir(uri_fn, list(a))

    def entry(ex):
        rep = ir.S('Report', category=Enum('MessageCategory', cat), message=StrV.of('the message'), primary_file_ids=VecV([labs[i][0] for i in range(np_)]),
                   primary=VecV([lab(i) for i in range(np_)]), secondary=VecV([lab(np_ + i) for i in range(ns)]), notes=VecV([]), code=Enum('ReportCode', code))
        return ex.call_mir(fn, [Ref([rep], 0), Ref([Opaque('filelibrary')], 0)])

    def uri_file(v):
        """the file a uri value was built from: format!("file://{}", path) over our opaque path values"""
        v = deref(v)
        if isinstance(v, StrV): return None
        return getattr(v, 'data', None)

    def post(ex, res):
        O = ex.oblige
        O(res.var == 'Ok', 'sarif', 'a report with valid labels converts')
        if res.var != 'Ok': return
        r = deref(res.f[0])
        want_level = z3.If(cat == disc['Error'], 0, z3.If(cat == disc['Warning'], 1, 2))
        lvl = as_str(r.fields.get('level')).concrete() if 'level' in r.fields else None
        got_level = {'error': 0, 'warning': 1, 'note': 2}.get(lvl, -1)
        O(simp(want_level == got_level), 'sarif-level', 'SARIF level is error / warning / note for an Error / Warning / Info report (got %r)' % lvl)
        rid = r.fields.get('rule_id'); rid = as_str(rid).concrete() if rid is not None else None
        O(rid == IDS[code], 'sarif-rule', 'ruleId is the id of the report (%s, got %r)' % (IDS[code], rid))
        rule = deref(r.fields.get('rule')) if 'rule' in r.fields else None
        O(rule is not None and as_str(rule.fields.get('id')).concrete() == IDS[code], 'sarif-rule', 'the rule reference carries the same id')
        msg = deref(r.fields.get('message')) if 'message' in r.fields else None
        O(msg is not None and as_str(msg.fields.get('text')).concrete() == 'the message', 'sarif-message', 'the message text is the message of the report')
        for name, lo_, n in (('locations', 0, np_), ('related_locations', np_, ns)):
            locs = deref(r.fields.get(name)).items if name in r.fields else []
            O(len(locs) == n, 'sarif-locations', '%s has one entry per %s label (%d, expected %d)' % (name, 'primary' if lo_ == 0 else 'secondary', len(locs), n))
            for k, L in enumerate(locs[:n]):
                f, a, b = labs[lo_ + k]; L = deref(L)
                ph = deref(L.fields['physical_location']); reg = deref(ph.fields['region']); art = deref(ph.fields['artifact_location'])
                def same(v, kind, off):
                    return simp(eq(zint(deref(v)), (LINE if kind == 'line' else COL)(zint(f), zint(off))))
                both = lambda x, y: simp(b_and(x, y))
                O(both(same(reg.fields['start_line'], 'line', a), same(reg.fields['start_column'], 'col', a)), 'sarif-position', '%s[%d]: the region starts at the line / column of the start offset of label %d in its file' % (name, k, lo_ + k))
                O(both(same(reg.fields['end_line'], 'line', b), same(reg.fields['end_column'], 'col', b)), 'sarif-position', '%s[%d]: the region ends at the line / column of the end offset of label %d in its file' % (name, k, lo_ + k))
                u = as_str(art.fields['uri']).chars
                okuri = len(u) == len('file://f0') and ''.join(chr(c) for c in u[:-1]) == 'file://f'
                O(okuri and simp(eq(u[-1], 48 + f)), 'sarif-position', '%s[%d]: the uri is that of the file of label %d' % (name, k, lo_ + k))
                lm = deref(L.fields['message'])
                O(as_str(lm.fields['text']).concrete() == 'label %d' % (lo_ + k), 'sarif-message', '%s[%d] carries the text of label %d' % (name, k, lo_ + k))
    st, vs, inc = explore(h, entry, None, post=post, base=base, stats=stats, seed=common.seed())
    return {'stats': common.pack_stats(stats), 'violations': [common.pack_violation(v) for v in vs]}
