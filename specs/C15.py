"""C15 — dominators, immediate dominators, dominator-tree children and dominance frontiers
match their definitions on every rooted digraph (bounded number of nodes).

Engine: mirsym over the MIR of static_single_assignment::dominator_tree (generic T bound to a harness
node whose predecessor set is symbolic).  Oracle: oracles/dominance.py (path definition).
"""
import os, sys, json, itertools, re
import z3
from . import common
from mirsym.program import Program
from mirsym.engine import Harness, explore, Stats, Unsupported
from mirsym.values import *
from mirsym import models, models_coll
from mirsym.models_coll import BitSetV, bitset_stubs
from oracles import dominance as D

_prog = None
SRC = 'program_structure/src/static_single_assignment/dominator_tree.rs'


def prog():
    global _prog
    if _prog is None: _prog = Program(['structure'])
    return _prog


def bounds(tier): return 4 if tier == 'quick' else 5


def tasks(tier):
    N = bounds(tier); ts = []
    for n in range(1, N + 1):
        nbits = n * n
        k = 0 if n <= 3 else (6 if n == 4 else 12)
        for pre in itertools.product([0, 1], repeat=k):
            ts.append({'n': n, 'fixed': list(pre)})
    ts.sort(key=lambda t: -t['n'])
    return ts


def edge_vars(n):
    """pred[i][j] for i in 1..n-1 (node 0 has no predecessors), j in 0..n-1"""
    pred = [[False] * n for _ in range(n)]; names = {}
    for i in range(1, n):
        for j in range(n):
            v = z3.Bool('e_%d_%d' % (j, i)); pred[i][j] = v; names['e_%d_%d' % (j, i)] = v
    return pred, names


def graph_harness(pr, n, pred):
    h = Harness(pr, 'structure')
    bitset_stubs(h, n)
    nodes = [Struct('HNode', [i, BitSetV(n, pred[i])]) for i in range(n)]
    h.trait_binds[('T', 'DirectedGraphNode', 'predecessors')] = lambda ex, args: Ref(deref(args[0]).f, 1)
    h.trait_binds[('T', 'DirectedGraphNode', 'index')] = lambda ex, args: deref(args[0]).f[0]
    h.trait_binds[('HNode', 'DirectedGraphNode', 'predecessors')] = h.trait_binds[('T', 'DirectedGraphNode', 'predecessors')]
    return h, nodes


def run_task(task):
    pr = prog(); n = task['n']
    pred, names = edge_vars(n)
    h, _ = graph_harness(pr, n, pred)
    h.inputs = names
    h.step_budget = 400_000
    fn = pr.method(None, 'DominatorTree', 'new')
    reach = D.reach_avoiding(pred, n, None)
    base = [zbool(r) for r in reach if is_sym(r)]            # precondition: every node reachable from the entry
    flat = [pred[i][j] for i in range(1, n) for j in range(n)]
    for v, b in zip(flat, task['fixed']): base.append(v if b else z3.Not(v))
    dom = D.dominance(pred, n); idom = D.idom_rel(dom, n); df = D.frontier(pred, dom, n)
    stats = Stats()

    def mk(ex):
        nodes = VecV([Struct('HNode', [i, BitSetV(n, pred[i])]) for i in range(n)])
        return [SliceV(nodes, 0, n)]

    def post(ex, tree):
        doms, idoms, succs, fronts = tree.f[0], tree.f[1], tree.f[2], tree.f[3]
        for v in range(n):
            dset = doms.items[v]
            for d in range(n):
                ex.oblige(simp(eq_b(dset.bits[d], dom[d][v])), 'dominators', 'node %d in Dom(%d) iff it lies on every entry path' % (d, v))
            io = idoms.items[v]
            if io.var == 'None':
                ex.oblige(simp(b_not(b_or(*[idom[d][v] for d in range(n)]))), 'idom', 'node %d: no immediate dominator claimed' % v)
            else:
                got = io.f[0]
                ex.oblige(simp(b_or(*[b_and(eq(got, d), idom[d][v]) for d in range(n)])), 'idom', 'immediate dominator of %d is the closest strict dominator' % v)
            for c in range(n):
                ex.oblige(simp(eq_b(succs.items[v].bits[c], idom[v][c])), 'children', 'dominator-tree children of %d invert idom' % v)
                ex.oblige(simp(eq_b(fronts.items[v].bits[c], df[v][c])), 'frontier', '%d in DF(%d) iff %d dominates a predecessor of %d but not strictly %d' % (c, v, v, c, c))
    st, vs, inc = explore(h, fn, mk, post=post, base=base, stats=stats, seed=common.seed())
    return {'stats': common.pack_stats(stats), 'violations': [common.pack_violation(v) for v in vs]}


def eq_b(a, b):
    if isinstance(a, bool) and isinstance(b, bool): return a == b
    return zbool(a) == zbool(b)


# ----------------------------------------------------------------------------- replay
def graph_of(model, n):
    return [[j for j in range(n) if model.get('e_%d_%d' % (j, i))] for i in range(n)]


def concrete_oracle(preds, n):
    pred = [[(j in preds[i]) for j in range(n)] for i in range(n)]
    dom = D.dominance(pred, n); idom = D.idom_rel(dom, n); df = D.frontier(pred, dom, n)
    B = lambda x: bool(simp(x)) if not isinstance(x, bool) else x
    doms = [sorted(d for d in range(n) if B(dom[d][v])) for v in range(n)]
    idoms = [next((d for d in range(n) if B(idom[d][v])), None) for v in range(n)]
    kids = [sorted(c for c in range(n) if B(idom[v][c])) for v in range(n)]
    fr = [sorted(c for c in range(n) if B(df[v][c])) for v in range(n)]
    return {'dom': doms, 'idom': idoms, 'children': kids, 'frontier': fr}


def native(nat, preds):
    line = 'domtree ' + ' '.join(','.join(map(str, p)) if p else '-' for p in preds)
    return nat.ask(line)


def confirm(nat, preds, n):
    got = native(nat, preds)
    exp = concrete_oracle(preds, n)
    if got.startswith(('PANIC', 'TIMEOUT', 'ABORT')): return True, got, exp
    try: g = json.loads(got)
    except ValueError: return True, got, exp
    return g != exp, g, exp


def main(tier, replay=None):
    rep = common.Report('C15', tier)
    nat = common.Native(common.build_replay('vr_structure'))
    if replay:
        d = json.load(open(replay))
        bad, got, exp = confirm(nat, d['preds'], len(d['preds']))
        print('replay %s: observed=%s expected=%s -> %s' % (d['preds'], got, exp, 'VIOLATION' if bad else 'holds'))
        return 1 if bad else 0
    # translator validation: the repo's own dominance test graphs + a few more through engine, oracle and native code
    for preds in ([[], [0], [1], [2, 1]], [[], [0], [0], [1, 2]], [[], [0, 2], [1]], [[], [0, 3], [1], [2]], [[], [0], [1, 3], [2], [2]], [[], [0, 1]], [[]]):
        bad, got, exp = confirm(nat, preds, len(preds)); rep.validated += 1
        if bad: rep.inconclusive.append('oracle and native code disagree on the fixed graph %s: %s vs %s' % (preds, got, exp))
    ts = tasks(tier)
    results = common.run_tasks('specs.C15', ts)
    known = common.load_known('C15'); seen = {}
    for r in results:
        if 'error' in r:
            rep.inconclusive.append('task %s: %s' % (r['task'], r['error'][:400])); continue
        rep.add_stats(r['stats'])
        for v in r['violations']:
            n = r['task']['n']; preds = graph_of(v['model'], n)
            bad, got, exp = confirm(nat, preds, n); rep.validated += 1
            if not bad:
                rep.nonrepro.append({'preds': preds, 'violation': v}); continue
            role = {'function': 'DominatorTree::new', 'kind': v['kind'], 'class': 'any'}
            key = json.dumps(role, sort_keys=True)
            if key in seen: continue
            seen[key] = 1
            k = common.match_known(known, role)
            desc = '%s on predecessor lists %s: observed=%s expected=%s' % (v['msg'], preds, got, exp)
            if k: rep.known_hits.append('%s (%s)' % (k['id'], desc[:200]))
            else:
                rep.violations.append(rep.save_replay(role, {'property': 'C15', 'preds': preds, 'observed': got, 'expected': exp, 'violation': v}))
                common.log('VIOLATION detail:', desc)
    if rep.nonrepro and not rep.violations:
        rep.inconclusive.append('%d solver models did not reproduce natively, e.g. %s' % (len(rep.nonrepro), json.dumps(rep.nonrepro[0], default=str)[:300]))
    nat.close()
    pr = prog(); N = bounds(tier)
    rep.bounds = {'nodes': '1..%d' % N, 'graphs': 'every digraph on these nodes in which node 0 has no predecessor and every node is reachable from 0 (self loops, irreducible graphs, parallel joins included)'}
    rep.assumptions = ['generic T bound to a harness node: predecessors() returns a symbolic subset of the nodes', 'HashSet<usize> modelled as a bit set; iteration in ascending order (order sensitivity is C17)',
                       'log macros disabled', 'source hash ' + pr.hashes['structure']]
    rep.outside = ['graphs with more than %d nodes' % N, 'hash-set iteration order']
    return rep.finish()
