"""C01 — totality (partial): no panic / unbounded work in the kernels that user text reaches directly.

Not a model of the whole pipeline: the union of the panic, overflow and bounded-work obligations of
functions that are executed symbolically from MIR and whose inputs are user text:
 lex     : the semantic actions of the literal tokens of the LALRPOP grammar (decimal number, hexadecimal
           number, version component), found in the generated parser's MIR by their body; the input is a
           symbolic string constrained by the token's own regular expression (read from lang.lalrpop), of
           every length up to 24: the action must not reach a panic.
 strip   : parser_logic::preprocess on every string of <= 5 chars over all of Unicode (C05's harness,
           panic obligations only).
 algebra : every modular_arithmetic function on literal operands that need not be field elements
           (all a, b < 2^256): no panic, no 2^k-sized computation (C16's harness, panic / unbounded-work only).
 values  : publishing constants through Substitution for versioned and unversioned variables (C06-X
           harness, panic only) and the operator table (panic only).
 desugar : every (statement slot x expression shape) of C18 with a tuple or without: the tuple remover and, when it
           returns a statement, the real CFG / IR lifter on that statement (C18's harness, panic only): the catch-all
           `panic!("failed to convert AST ... to IR")` arms are unreachable.
 cfg     : lifting every statement skeleton with <= 3 statements and building its dominator tree: the
           internal assertions are unreachable (C12's harness, panic only).
Everything else the property covers (the LALR automaton, desugaring, IR lifting catch-alls, stack depth,
memory, the time box) is outside this check and says so in the manifest.
"""
import re, json, os
import z3
from . import common
from mirsym.program import Program
from mirsym.engine import Harness, explore, Stats, Unsupported
from mirsym.values import *
from mirsym.models import some, none, model, as_slice

_prog = None
MAXLEN = 24
PANIC_KINDS = ('panic', 'overflow', 'bounds', 'unbounded-work')


def prog():
    global _prog
    if _prog is None: _prog = Program(['structure', 'parser'])
    return _prog


def token_actions(pr):
    """(token name, regex text from lang.lalrpop, MirFn of its action) for the literal tokens"""
    g = open(os.path.join(common.REPO, 'parser/src/lang.lalrpop')).read()
    out = []
    for tok, marker in (('DECNUMBER', 'failed to parse base10'), ('HEXNUMBER', 'failed to parse base16'), ('SMALL_DECNUMBER', '<usize as FromStr>::from_str')):
        m = re.search(tok + r'\s*:\s*\w+\s*=\s*\{[^}]*?r"([^"]+)"', g, re.S)
        if not m: raise Unsupported('token %s not found in lang.lalrpop' % tok)
        fns = [f for n, f in pr.crates['parser'].items() if '__action' in n and marker in ' '.join(' '.join(b) for b in f.blocks.values())]
        if len(fns) != 1: raise Unsupported('action of %s: %d candidates' % (tok, len(fns)))
        out.append((tok, m.group(1), fns[0]))
    return out


def regex_constraints(rx, chars):
    """constraints on a list of symbolic chars for the token regexes used by the grammar:
       [0-9]+   |   0x[0-9A-Fa-f]*  |  0x[0-9A-Fa-f]+     (anything else: unsupported)"""
    dig = lambda c: z3.And(c >= 48, c <= 57)
    hexd = lambda c: z3.Or(dig(c), z3.And(c >= 65, c <= 70), z3.And(c >= 97, c <= 102))
    n = len(chars)
    if rx == '[0-9]+': return None if n < 1 else [dig(c) for c in chars]
    m = re.fullmatch(r'0x\[0-9A-Fa-f\]([*+])', rx)
    if m:
        if n < 2 + (1 if m.group(1) == '+' else 0): return None
        return [chars[0] == 48, chars[1] == 120] + [hexd(c) for c in chars[2:]]
    raise Unsupported('token regex %r is not one the harness can encode' % rx)


def tasks(tier):
    ts = [{'part': 'lex', 'tok': t, 'n': n} for t in ('DECNUMBER', 'HEXNUMBER', 'SMALL_DECNUMBER') for n in range(0, MAXLEN + 1)]
    ts += [{'part': 'delegate', 'spec': 'C16', 'task': t} for t in _c16_wide()]
    ts += [{'part': 'delegate', 'spec': 'C05', 'task': t} for t in _c05_small()]
    ts += [{'part': 'delegate', 'spec': 'C06', 'task': {'kind': 'rule', 'node': n}} for n in ('subst', 'subst_signal', 'subst_update', 'phi', 'switch')]
    ts += [{'part': 'delegate', 'spec': 'C12', 'task': t} for t in _c12_small()]
    from . import C18
    ts += [{'part': 'delegate', 'spec': 'C18', 'task': t} for t in C18.tasks(tier) if 'part' not in t]
    from . import parsefile_h
    ts += [{'part': 'delegate', 'spec': 'parsefile_h', 'task': t} for t in parsefile_h.tasks(tier)]
    return ts


def _c16_wide():
    from . import C16
    return [t for t in C16.tasks('thorough') if t['mode'] == 'wide' and t['p'] in C16.PRIMES]


def _c05_small():
    import itertools
    from . import C05
    return [{'n': n, 'prefix': ''.join(p), 'prop': 'C05', 'ascii': False} for n in range(0, 6) for p in itertools.product(C05.CLASSES, repeat=min(n, 2))]


def _c12_small():
    from . import C12
    n = len(C12.skeleton_family(3, False)); chunk = (n + 15) // 16
    return [{'lo': i, 'hi': min(n, i + chunk), 'prop': 'C12', 'tier': 'c01'} for i in range(0, n, chunk)]


def run_task(task):
    if task['part'] == 'delegate':
        import importlib
        mod = importlib.import_module('specs.' + task['spec'])
        if task['spec'] == 'C12':
            orig = mod.bounds; mod.bounds = lambda tier, prop='C12': {'nodes': 3}
            try: r = mod.run_task(task['task'])
            finally: mod.bounds = orig
        else:
            r = mod.run_task(task['task'])
        r['violations'] = [v for v in r.get('violations', []) if v['kind'] in PANIC_KINDS]
        return r
    pr = prog(); tok = task['tok']; n = task['n']
    rx, fn = [(r, f) for t, r, f in token_actions(pr) if t == tok][0]
    chars = [z3.Int('c%d' % i) for i in range(n)]
    cons = regex_constraints(rx, chars)
    stats = Stats()
    if cons is None:        # no string of this length matches the token
        return {'stats': common.pack_stats(stats), 'violations': [], 'skipped': True}
    h = Harness(pr, 'parser')
    h.inputs = {'c%d' % i: c for i, c in enumerate(chars)}
    st, vs, inc = explore(h, fn, lambda ex: [StrV(chars), Struct('()', [0, StrV(chars), n])], base=cons, stats=stats, seed=common.seed())
    for v in vs: v.extra['token'] = tok; v.extra['n'] = n
    return {'stats': common.pack_stats(stats), 'violations': [common.pack_violation(v) for v in vs if v.kind in PANIC_KINDS]}


# ----------------------------------------------------------------------------- replay
def confirm_lex(tok, text):
    from . import realbin
    import tempfile, shutil
    d = tempfile.mkdtemp(prefix='vc01_', dir=common.CACHE)
    try:
        if tok == 'SMALL_DECNUMBER': src = 'pragma circom 2.0.%s;\ntemplate T() { signal input a; signal output b; b <== a; }\n' % text
        else: src = 'pragma circom 2.0.0;\ntemplate T() { signal input a; signal output b; b <== a + %s; }\n' % text
        open(os.path.join(d, 'a.circom'), 'w').write(src)
        rc, out = realbin.run([os.path.join(d, 'a.circom')], d)
        bad = rc not in (0, 1) or 'panicked' in out or realbin.summary(out) is None
        return bad, {'exit': rc, 'tail': out[-160:]}, 'exit status 0 or 1 after the summary line'
    finally:
        shutil.rmtree(d, ignore_errors=True)


def main(tier, replay=None):
    rep = common.Report('C01', tier)
    if replay:
        d = json.load(open(replay))
        if d.get('token'):
            bad, got, exp = confirm_lex(d['token'], d['text'])
            print('replay: observed=%s expected=%s -> %s' % (got, exp, 'VIOLATION' if bad else 'holds')); return 1 if bad else 0
        print('replay: delegated kernel; use ./check %s --replay' % d.get('spec')); return 0
    for tok, text in (('HEXNUMBER', '0x1f'), ('DECNUMBER', '123456789012345678901234567890'), ('SMALL_DECNUMBER', '4')):
        bad, got, exp = confirm_lex(tok, text); rep.validated += 1
        if bad: rep.inconclusive.append('fixed input %s %r: %s' % (tok, text, got))
    ts = tasks(tier)
    results = common.run_tasks('specs.C01', ts)
    known = common.load_known('C01'); seen = {}
    for r in results:
        if 'error' in r:
            rep.inconclusive.append('task %s: %s' % (str(r['task'])[:200], r['error'][:400])); continue
        rep.add_stats(r['stats'])
        for v in r['violations']:
            t = r['task']
            if t['part'] == 'lex':
                text = ''.join(chr(v['model'].get('c%d' % i, 48)) for i in range(t['n']))
                bad, got, exp = confirm_lex(t['tok'], text); rep.validated += 1
                role = {'function': 'grammar action ' + t['tok'], 'kind': v['kind'], 'class': 'any'}
                data = {'property': 'C01', 'token': t['tok'], 'text': text, 'violation': v, 'observed': got}
                desc = '%s on token text %r: %s' % (v['msg'], text, got)
                if not bad:
                    rep.nonrepro.append({'token': t['tok'], 'text': text, 'observed': got}); continue
            else:
                role = {'function': '%s kernel' % t['spec'], 'kind': v['kind'], 'class': str(t['task'].get('op') or t['task'].get('node') or '')}
                data = {'property': 'C01', 'spec': t['spec'], 'task': t['task'], 'violation': v}
                desc = '%s in the %s kernel (task %s, model %s)' % (v['msg'], t['spec'], t['task'], v['model'])
            key = json.dumps(role, sort_keys=True)
            if key in seen: continue
            seen[key] = 1
            k = common.match_known(known, role)
            if k: rep.known_hits.append('%s (%s)' % (k['id'], desc[:300]))
            else:
                rep.violations.append(rep.save_replay(role, data)); common.log('VIOLATION detail:', desc)
    if rep.nonrepro and not rep.violations:
        rep.inconclusive.append('%d counterexamples did not reproduce with the real binary, e.g. %s' % (len(rep.nonrepro), json.dumps(rep.nonrepro[0], default=str)[:300]))
    pr = prog()
    rep.bounds = {'lex': 'token texts of every length 0..%d matching the token regular expression read from lang.lalrpop' % MAXLEN, 'strip': 'all strings of <= 5 Unicode chars',
                  'algebra': 'all operands a, b < 2^256 for the three primes', 'values': 'the Substitution / Phi / SwitchOp rules', 'cfg': 'all skeletons with <= 3 statements', 'desugar': '18 statement slots x 16 expression shapes, with and without a tuple', 'parse errors': 'parse_file around a stubbed parser: sources of <= 3 code points over all of Unicode, every parser outcome and span'}
    rep.assumptions = ['only panic / overflow / bounds / unbounded-work obligations of the delegated harnesses are reported here; their semantic obligations are reported under their own property',
                       'source hash ' + pr.hashes['parser'] + '/' + pr.hashes['structure']]
    rep.outside = ['the LALR automaton and every other grammar action', 'anonymous-component expansion; IR lifting of statements outside the C18 shapes', 'stack depth, memory consumption, wall-clock time', 'include handling and the file system']
    return rep.finish()
