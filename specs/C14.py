"""C14 — SSA form: (1) the generic SSA driver on symbolic graphs (this file), (2) the real conversion
(ssa_impl.rs + driver) on real basic blocks of bounded programs (specs/C14ssa.py).

Part (1):

Engine: mirsym over the MIR of static_single_assignment::{insert_phi_statements, insert_ssa_variables,
insert_ssa_variables_impl} and DominatorTree::new, with the SSAConfig associated types bound to harness
models: blocks whose predecessor/successor sets AND sets of written variables are symbolic, recording
insert_phi_statement / insert_ssa_variables / update_phi_statements / scope push-pop events.

Decided for every rooted digraph within the bound and every assignment of written variables to blocks:
  * a phi for v is inserted in block j  <=>  j is in the iterated dominance frontier of the blocks writing v
    (oracle: dominance by paths), and at most once;
  * renaming visits every block exactly once, a block only after its immediate dominator (dominator-tree
    pre-order), with variable scopes balanced and the scope depth equal to the depth in the dominator tree;
  * after a block is renamed, the phi statements of each of its successors are updated exactly once, before
    any block it dominates is renamed.
Statement renaming, version keys and that reads name the right version are decided by part (2).
"""
import re, json, itertools
import z3
from . import common
from mirsym.program import Program
from mirsym.engine import Harness, explore, Stats, Unsupported
from mirsym.values import *
from mirsym.models import some, none, ok, err, SeqIter
from mirsym.models_coll import BitSetV, bitset_stubs
from oracles import dominance as D

_prog = None


def prog():
    global _prog
    if _prog is None: _prog = Program(['structure'])
    return _prog


def tasks(tier):
    ts = []
    for n, nv in ((1, 2), (2, 2), (3, 2)):
        k = 0 if n < 3 else 3
        for pre in itertools.product([0, 1], repeat=k): ts.append({'n': n, 'nv': nv, 'fixed': list(pre)})
    if tier == 'thorough':
        for pre in itertools.product([0, 1], repeat=8): ts.append({'n': 4, 'nv': 1, 'fixed': list(pre)})
    else:
        for pre in itertools.product([0, 1], repeat=6): ts.append({'n': 4, 'nv': 1, 'fixed': list(pre), 'sparse': True})
    return ts


def run_task(task):
    if task.get('part') == 'ssa':
        from . import C14ssa
        return C14ssa.run_task(task)
    pr = prog(); n = task['n']; nv = task['nv']
    h = Harness(pr, 'structure')
    h.step_budget = 500_000
    bitset_stubs(h, n)
    R = lambda p, f: h.stub_res.append((re.compile(p), f))
    pred = [[False] * n for _ in range(n)]; names = {}
    for i in range(1, n):
        for j in range(n):
            v = z3.Bool('e_%d_%d' % (j, i)); pred[i][j] = v; names['e_%d_%d' % (j, i)] = v
    wr = [[z3.Bool('w_%d_%d' % (b, v)) for v in range(nv)] for b in range(n)]
    for b in range(n):
        for v in range(nv): names['w_%d_%d' % (b, v)] = wr[b][v]
    h.inputs = names
    succ = [[pred[j][i] for j in range(n)] for i in range(n)]        # succ[i][j] = edge i -> j
    reach = D.reach_avoiding(pred, n, None)
    base = [zbool(r) for r in reach if is_sym(r)]
    flat = [pred[i][j] for i in range(1, n) for j in range(n)]
    for v, bit in zip(flat, task['fixed']): base.append(v if bit else z3.Not(v))
    if task.get('sparse'):      # quick tier for 4 nodes: at most 5 edges
        base.append(z3.Sum([z3.If(v, 1, 0) for v in flat]) <= 5)

    # ---- harness model of SSAConfig
    def blk(a): return deref(a[0])
    B = lambda name: ('HBlock', name)
    h.trait_binds[('HBlock', 'DirectedGraphNode', 'predecessors')] = lambda ex, a: Ref(blk(a).f, 1)
    h.trait_binds[('HBlock', 'DirectedGraphNode', 'successors')] = lambda ex, a: Ref(blk(a).f, 2)
    h.trait_binds[('HBlock', 'DirectedGraphNode', 'index')] = lambda ex, a: blk(a).f[0]
    for t in ('T',):
        h.trait_binds[(t, 'DirectedGraphNode', 'predecessors')] = h.trait_binds[('HBlock', 'DirectedGraphNode', 'predecessors')]

    def variables_written(ex, a):
        b = blk(a); i = b.f[0]
        st = ex.notes['st']
        bits = [simp(b_or(wr[i][v], (i, v) in st['phis'])) for v in range(nv)]
        return BitSetV(nv, bits)
    h.trait_binds[('HBlock', 'SSABasicBlock', 'variables_written')] = variables_written
    h.trait_binds[('HBlock', 'SSABasicBlock', 'has_phi_statement')] = lambda ex, a: (blk(a).f[0], deref(a[1])) in ex.notes['st']['phis']

    def insert_phi(ex, a):
        st = ex.notes['st']; key = (blk(a).f[0], deref(a[1]))
        st['phi_events'].append(key); st['phis'].add(key); return UNIT
    h.trait_binds[('HBlock', 'SSABasicBlock', 'insert_phi_statement')] = insert_phi

    def rename(ex, a):
        st = ex.notes['st']; st['events'].append(('rename', blk(a).f[0], st['depth'])); return ok(UNIT)
    h.trait_binds[('HBlock', 'SSABasicBlock', 'insert_ssa_variables')] = rename

    def update(ex, a):
        st = ex.notes['st']; st['events'].append(('update', blk(a).f[0], st['depth'])); return UNIT
    h.trait_binds[('HBlock', 'SSABasicBlock', 'update_phi_statements')] = update

    def scope(d):
        def f(ex, a):
            st = ex.notes['st']; st['depth'] += d; st['events'].append(('scope', d, st['depth']))
            if st['depth'] < 0: ex.oblige(False, 'scope', 'variable scope popped below the base')
            return UNIT
        return f
    h.trait_binds[('HEnv', 'SSAEnvironment', 'add_variable_scope')] = scope(+1)
    h.trait_binds[('HEnv', 'SSAEnvironment', 'remove_variable_scope')] = scope(-1)
    # sets of variables (associated type) are bit sets over the nv variables
    VAR = r'<Cfg as (?:static_single_assignment::traits::)?SSAConfig>::Variable'
    R(r'<(?:std::collections::)?HashSet<' + VAR + r'> as Clone>::clone', lambda ex, a, m: deref(a[0]).clone())
    R(r'(?:std::collections::)?HashSet::<' + VAR + r'>::is_empty', lambda ex, a, m: simp(eq(deref(a[0]).size(ex), 0)))
    R(r'<&(?:std::collections::)?HashSet<' + VAR + r'> as IntoIterator>::into_iter', lambda ex, a, m: SeqIter(deref(a[0]).iter_items(ex)))

    domnew = pr.method(None, 'DominatorTree', 'new')
    phi_fn = pr.crates['structure']['insert_phi_statements']; ssa_fn = pr.crates['structure']['insert_ssa_variables']
    dom = D.dominance(pred, n); idom = D.idom_rel(dom, n); df = D.frontier(pred, dom, n)
    stats = Stats()

    def entry(ex):
        ex.notes['st'] = {'phis': set(), 'phi_events': [], 'events': [], 'depth': 0}
        blocks = VecV([Struct('HBlock', [i, BitSetV(n, pred[i]), BitSetV(n, succ[i])]) for i in range(n)])
        tree = ex.call_mir(domnew, [SliceV(blocks, 0, n)])
        env = Struct('HEnv', [])
        ex.call_mir(phi_fn, [SliceV(blocks, 0, n), Ref([tree], 0), Ref([env], 0)])
        res = ex.call_mir(ssa_fn, [SliceV(blocks, 0, n), Ref([tree], 0), Ref([env], 0)])
        return res

    def post(ex, res):
        st = ex.notes['st']
        ex.oblige(res.var == 'Ok', 'result', 'the driver succeeds when no statement fails')
        # (1) phi placement == iterated dominance frontier (least fixpoint, computed symbolically)
        for v in range(nv):
            S = [wr[b][v] for b in range(n)]
            for _ in range(n):
                S = [simp(b_or(S[j], *[b_and(S[i], df[i][j]) for i in range(n)])) for j in range(n)]
            idf = [simp(b_or(*[b_and(S[i], df[i][j]) for i in range(n)])) for j in range(n)]
            for j in range(n):
                has = (j, v) in st['phis']
                ex.oblige(simp(eq(zbool(idf[j]) if is_sym(idf[j]) else idf[j], has)) if is_sym(idf[j]) else (idf[j] == has), 'phi-placement',
                          'block %d gets a phi for variable %d iff it lies in the iterated dominance frontier of the blocks writing it' % (j, v))
        ex.oblige(len(st['phi_events']) == len(set(st['phi_events'])), 'phi-once', 'a phi statement is inserted at most once per block and variable')
        # (2) renaming order
        ev = st['events']
        ren = [e[1] for e in ev if e[0] == 'rename']
        ex.oblige(sorted(ren) == list(range(n)), 'rename-once', 'every block is renamed exactly once (order %s)' % ren)
        pos = {b: k for k, b in enumerate(ren)}
        for b in range(1, n):
            for d in range(n):
                if d == b or d not in pos or b not in pos: continue
                ex.oblige(simp(z3.Implies(zbool(idom[d][b]), pos[d] < pos[b])) if is_sym(idom[d][b]) else ((not idom[d][b]) or pos[d] < pos[b]), 'preorder',
                          'block %d is renamed after its immediate dominator %d' % (b, d))
        ex.oblige(st['depth'] == 0, 'scope', 'variable scopes are balanced')
        # scope depth at rename(b) == depth of b in the dominator tree == number of strict dominators
        for e in ev:
            if e[0] != 'rename': continue
            b = e[1]
            nd = z3.Sum([z3.If(zbool(dom[d][b]), 1, 0) for d in range(n) if d != b] + [z3.IntVal(0)])
            ex.oblige(simp(nd == e[2]), 'scope-depth', 'block %d is renamed inside exactly the scopes of its strict dominators' % b)
        # (3) successor phis updated right after the block, before any dominated block is renamed
        k = 0
        while k < len(ev):
            if ev[k][0] == 'rename':
                b = ev[k][1]; ups = []; j = k + 1
                while j < len(ev) and ev[j][0] == 'update': ups.append(ev[j][1]); j += 1
                for s in range(n):
                    c = ups.count(s)
                    ex.oblige(simp(eq(zbool(succ[b][s]) if is_sym(succ[b][s]) else succ[b][s], c == 1)) if is_sym(succ[b][s]) else (succ[b][s] == (c == 1)) and c <= 1, 'update-phis',
                              'after renaming block %d the phis of successor %d are updated exactly once (before dominated blocks are visited)' % (b, s))
                k = j
            else: k += 1
    st_, vs, inc = explore(h, entry, None, post=post, base=base, stats=stats, seed=common.seed())
    return {'stats': common.pack_stats(stats), 'violations': [common.pack_violation(v) for v in vs]}


def main(tier, replay=None):
    rep = common.Report('C14', tier)
    if replay and json.load(open(replay)).get('part') == 'ssa':
        from . import C14ssa
        d = json.load(open(replay)); sh = d['violation']['model'].get('shape', 0)
        r = C14ssa.run_task({'part': 'ssa', 'lo': sh, 'hi': sh + 1, 'tier': d.get('tier', tier)})
        bad = [v for v in r['violations']]
        for v in bad[:3]: print('replay (re-execution of program %d from the current MIR): %s' % (sh, v['msg'][:300]))
        print('replay: -> %s' % ('VIOLATION' if bad else 'holds')); return 1 if bad else 0
    if replay:
        print('replay: C14 counterexamples concern the generic driver with harness-bound blocks; re-run ./check C14 (the engine re-executes the same path deterministically)'); return 0
    from . import C14ssa
    for msg in C14ssa.validate_native(rep): rep.inconclusive.append(msg)
    ts = tasks(tier) + C14ssa.tasks(tier)
    results = common.run_tasks('specs.C14', ts)
    known = common.load_known('C14'); seen = {}
    for r in results:
        if 'error' in r:
            rep.inconclusive.append('task %s: %s' % (r['task'], r['error'][:500])); continue
        rep.add_stats(r['stats'])
        for v in r['violations']:
            if r['task'].get('part') == 'ssa':
                role = {'function': 'ssa_impl conversion', 'kind': v['kind'], 'class': 'any'}
                key = json.dumps(role, sort_keys=True)
                if key in seen: continue
                seen[key] = 1
                k = common.match_known(known, role)
                desc = '%s model %s' % (v['msg'], v['model'])
                if k: rep.known_hits.append('%s (%s)' % (k['id'], desc[:300]))
                else:
                    rep.violations.append(rep.save_replay(role, {'property': 'C14', 'part': 'ssa', 'tier': tier, 'violation': v}))
                    common.log('VIOLATION detail:', desc)
                continue
            role = {'function': 'static_single_assignment driver', 'kind': v['kind'], 'class': 'any'}
            key = json.dumps(role, sort_keys=True)
            if key in seen: continue
            seen[key] = 1
            n = r['task']['n']; m = v['model']
            preds = [[j for j in range(n) if m.get('e_%d_%d' % (j, i))] for i in range(n)]
            writes = [[vv for vv in range(r['task']['nv']) if m.get('w_%d_%d' % (b, vv))] for b in range(n)]
            k = common.match_known(known, role)
            desc = '%s on predecessor lists %s, variables written per block %s' % (v['msg'], preds, writes)
            if k: rep.known_hits.append('%s (%s)' % (k['id'], desc[:300]))
            else:
                rep.violations.append(rep.save_replay(role, {'property': 'C14', 'violation': v, 'preds': preds, 'writes': writes}))
                common.log('VIOLATION detail:', desc)
    pr = prog()
    rep.bounds = {'programs': C14ssa.bounds_text(tier), 'graphs': 'every rooted digraph on 1..3 nodes with 2 variables; 4 nodes with 1 variable (%s)' % ('all graphs' if tier == 'thorough' else 'graphs with <= 5 edges'),
                  'writes': 'every assignment of written variables to blocks (symbolic)'}
    rep.stubs = ['part 1: SSAConfig associated types bound to harness models (blocks, environment); statement-level renaming is a recorded event',
                 'part 2: leaf lifting (ast -> ir statement / condition) returns harness-built IR statements; everything from build_basic_blocks on is the real code']
    rep.assumptions = ['HashSet<usize> / HashSet<Variable> modelled as bit sets iterated in ascending order', 'dominance oracle by paths (same as C15)', 'source hash ' + pr.hashes['structure']]
    rep.assumptions.append('part 2 replays steps 1-3 of Cfg::into_ssa (Environment::new, insert_phi_statements, insert_ssa_variables, parameters.with_version(0), update_declarations) in source order; the order is compared with the callee sequence in the MIR of into_ssa on every run')
    rep.outside = ['programs with more statements or other expression forms (calls, inline arrays, switch expressions, component accesses)', 'larger graphs', 'steps 4-5 of into_ssa (type/value/degree propagation after SSA: C06, C07)']
    return rep.finish()
