"""C10 — names resolve by lexical scope, and every shadowing declaration is reported (partial).

Engine: mirsym over MIR.
 scope : control_flow_graph::unique_vars::{ensure_unique_variables, visit_statement, visit_expression,
         DeclarationEnvironment} and utils::environment::RawEnvironment, on every bounded program skeleton
         (declarations / reads / assignments of two names, one of which is also a parameter, in nested
         blocks).  Oracle: textbook block scoping.  Decided: after renaming all declarations carry distinct
         names; every use carries the name of the innermost preceding visible declaration of that name (or
         stays the parameter / undeclared); a shadowing report is produced for exactly the declarations
         that redeclare a visible name, with the shadowed declaration as secondary location.
 keys  : ssa_impl::Environment::{new, get_next_version, get_current_version, add/remove_variable_scope}
         with SYMBOLIC identifier strings for name and suffix: two different (name, suffix) pairs never
         share a version counter (the solver searches for colliding identifiers such as `x` with suffix
         `0` vs a variable called `x_0`); a re-issued name gets a fresh version; leaving a scope restores
         the version that was current when it was entered.
 split : <String as TryLift<&Meta>>::try_lift: `name` and `name.N` are split back into (name, suffix).
"""
import re, json, os, tempfile, shutil
import z3
from . import common
from mirsym.program import Program
from mirsym.engine import Harness, explore, Stats, Unsupported
from mirsym.values import *
from mirsym.models import some, none, ok, err
from mirsym.models_coll import MapV
from .irbuild import IR

_prog = None
NAMES = ['a', 'b']       # `a` is also the parameter


def prog():
    global _prog
    if _prog is None: _prog = Program(['structure'])
    return _prog


# ----------------------------------------------------------------------------- skeletons for the scope part
_ENUM = {}


def all_programs(nodes):
    """item = ('D', name) | ('U', name) read | ('A', name) assignment | ('B', (items...)) block;  <= nodes items in total"""
    if nodes in _ENUM: return _ENUM[nodes]
    from functools import lru_cache
    atoms = [(k, n) for k in 'DUA' for n in NAMES] + [('X', n, m) for n in NAMES for m in NAMES]      # X: `var n[m]`

    @lru_cache(None)
    def items(m):
        out = []
        if m == 1: out += atoms
        if m >= 1:
            for l in lists(m - 1): out.append(('B', l))
            # ('I', then-items, else-items): an if-else whose two branches are sibling scopes
            for k in range(0, m):
                for l1 in lists(k):
                    for l2 in lists(m - 1 - k): out.append(('I', l1, l2))
        return tuple(out)

    @lru_cache(None)
    def lists(m):
        if m == 0: return ((),)
        out = []
        for k in range(1, m + 1):
            for s in items(k):
                for rest in lists(m - k): out.append((s,) + rest)
        return tuple(out)
    progs = []
    for m in range(1, nodes + 1): progs += list(lists(m))
    # only programs with at least one declaration are interesting
    progs = [p for p in progs if ("'D'" in repr(p) or "'X'" in repr(p)) and repr(p).count("'X'") <= 1 and repr(p).count("'I'") <= 1 and not ("'I'" in repr(p) and "'X'" in repr(p))]
    _ENUM[nodes] = progs
    return progs


def bounds(tier): return 4 if tier == 'quick' else 5


def tasks(tier):
    n = len(all_programs(bounds(tier)))
    chunk = max(1, (n + 47) // 48)
    ts = [{'part': 'scope', 'lo': i, 'hi': min(n, i + chunk)} for i in range(0, n, chunk)]
    for ln1 in (1, 2, 3):
        for ls1 in (None, 1):
            for ln2 in (1, 2, 3):
                for ls2 in (None, 1):
                    ts.append({'part': 'keys', 'ln1': ln1, 'ls1': ls1, 'ln2': ln2, 'ls2': ls2})
    ts += [{'part': 'scopes'}]
    ts += [{'part': 'params', 'n': n} for n in (1, 2, 3)]
    ts += [{'part': 'split', 'ln': ln, 'lv': lv} for ln in (1, 2, 3) for lv in (0, 1, 2)]
    return ts


def oracle_scope(prog_items):
    """-> list of events in source order: ('D', id, name, shadowed_id|'param'|None) and ('U', id, name, decl_id|'param'|None)"""
    ev = []; cnt = [0]
    def walk(items, scopes):
        scopes = scopes + [{}]
        for it in items:
            cnt[0] += 1; i = cnt[0]
            if it[0] == 'B': walk(it[1], scopes); continue
            if it[0] == 'I': walk(it[1], scopes); walk(it[2], scopes); continue
            k, n = it[0], it[1]
            def visible(n):
                for sc in reversed(scopes):
                    if n in sc: return sc[n]
                return None
            if k == 'X':        # the size expression is evaluated before the declared name becomes visible
                ev.append(('U', 100 + i, it[2], visible(it[2])))
            vis = visible(n)
            if k in 'DX':
                ev.append(('D', i, n, vis)); scopes[-1][n] = i
            else:
                ev.append(('U', i, n, vis))
    walk(prog_items, [{'a': 'param'}])
    return ev


def build_ast(ir, prog_items):
    A = 'ast::Statement'; cnt = [0]
    def meta(i): return Struct('ast::Meta', [i, 10 * i, 10 * i + 5, ir.range_(10 * i, 10 * i + 5), some(0), Opaque('ci'), Opaque('tk'), Opaque('mk')])
    def var(i, n): return ir.E('ast::Expression', 'Variable', meta=meta(i), name=StrV.of(n), access=VecV([]))
    def build(items):
        out = []
        for it in items:
            cnt[0] += 1; i = cnt[0]
            if it[0] == 'B': out.append(ir.E(A, 'Block', meta=meta(i), stmts=VecV(build(it[1])))); continue
            if it[0] == 'I':
                then_ = ir.E(A, 'Block', meta=meta(i), stmts=VecV(build(it[1]))); else_ = ir.E(A, 'Block', meta=meta(i), stmts=VecV(build(it[2])))
                out.append(ir.E(A, 'IfThenElse', meta=meta(i), cond=Enum('ast::Expression', 'Number', [meta(i), BigV(1)]), if_case=BoxV(then_), else_case=some(BoxV(else_)))); continue
            k, n = it[0], it[1]
            if k == 'X': out.append(ir.E(A, 'Declaration', meta=meta(i), xtype=Enum('ast::VariableType', 'Var'), name=StrV.of(n), dimensions=VecV([var(100 + i, it[2])]), is_constant=True))
            elif k == 'D': out.append(ir.E(A, 'Declaration', meta=meta(i), xtype=Enum('ast::VariableType', 'Var'), name=StrV.of(n), dimensions=VecV([]), is_constant=True))
            elif k == 'U': out.append(ir.E(A, 'Return', meta=meta(i), value=var(i, n)))
            else: out.append(ir.E(A, 'Substitution', meta=meta(i), var=StrV.of(n), access=VecV([]), op=Enum('ast::AssignOp', 'AssignVar'), rhe=Enum('ast::Expression', 'Number', [meta(i), BigV(1)])))
        return out
    return ir.E(A, 'Block', meta=meta(0), stmts=VecV(build(prog_items)))


def read_back(ir, body):
    """id -> name string after renaming"""
    out = {}
    def walk(st):
        st = deref(st); i = ir.get(st, 'meta').f[0]
        if st.var == 'Block':
            for s in ir.get(st, 'stmts').items: walk(s)
        elif st.var == 'IfThenElse':
            walk(deref(ir.get(st, 'if_case')).f[0] if isinstance(deref(ir.get(st, 'if_case')), BoxV) else ir.get(st, 'if_case'))
            ec = ir.get(st, 'else_case')
            if ec.var == 'Some': walk(deref(ec.f[0]).f[0] if isinstance(deref(ec.f[0]), BoxV) else ec.f[0])
        elif st.var == 'Declaration':
            out[i] = ir.get(st, 'name').concrete()
            for d in ir.get(st, 'dimensions').items: out[ir.get(deref(d), 'meta').f[0]] = ir.get(deref(d), 'name').concrete()
        elif st.var == 'Return': out[i] = ir.get(deref(ir.get(st, 'value')), 'name').concrete()
        elif st.var == 'Substitution': out[i] = ir.get(st, 'var').concrete()
    walk(body)
    return out


def run_task(task):
    pr = prog(); ir = IR(pr); part = task['part']
    h = Harness(pr, 'structure'); stats = Stats()
    h.notes['render_format'] = True
    R = lambda p, f: h.stub_res.append((re.compile(p), f))
    if part == 'scope':
        progs = all_programs(task.get('nodes', 4))
        shape = z3.Int('shape'); h.inputs['shape'] = shape
        fn = pr.find('ensure_unique_variables', crate='structure')

        def shadow_report(ex, a, m):
            ex.notes['reports'].append((as_conc(a[0]), ir.get(deref(a[1]), 'location').f[0], deref(a[2])))
            return Opaque('report', 'shadow')
        R(r'(?:control_flow_graph::)?(?:unique_vars::)?build_report', shadow_report)

        def entry(ex):
            idx = ex.concretize(shape, task['lo'], task['hi'] - 1)
            p = progs[idx]; ex.notes['prog'] = p; ex.notes['reports'] = []
            body = build_ast(ir, p)
            params = ir.S('Parameters', param_names=VecV([ir.name('a')]), file_id=some(0), file_location=ir.range_(1, 2))
            cell = [body]
            res = ex.call_mir(fn, [Ref(cell, 0), Ref([params], 0), Ref([VecV([])], 0)])
            return res, cell[0]

        def post(ex, res):
            r, body = res; p = ex.notes['prog']
            ex.oblige(r.var == 'Ok', 'result', 'renaming succeeds (distinct parameter names)')
            ev = oracle_scope(p); names = read_back(ir, body)
            decl_names = {e[1]: names[e[1]] for e in ev if e[0] == 'D'}
            vals = list(decl_names.values()) + ['a']
            ex.oblige(len(set(vals)) == len(vals), 'unique', 'all declarations (and the parameter) carry distinct names after renaming (%s)' % decl_names)
            for e in ev:
                if e[0] != 'U': continue
                _, i, n, d = e
                want = n if d in (None, 'param') else decl_names[d]
                ex.oblige(names[i] == want, 'resolution', 'use %d of `%s` refers to the innermost preceding visible declaration (renamed %s, expected %s) in %s' % (i, n, names[i], want, p))
            reps = ex.notes['reports']
            want_reps = sorted((10 * e[1], e[3]) for e in ev if e[0] == 'D' and e[3] is not None)
            got = []
            for nm, primary, sec in reps:
                got.append((primary, 'param' if ir.get(sec, 'file_location').f[0] == 1 else ir.get(sec, 'file_location').f[0] // 10))
            ex.oblige(sorted(got, key=str) == sorted(want_reps, key=str), 'shadow-report', 'a shadowing report for exactly the redeclarations of a visible name, pointing at the shadowed declaration (got %s, expected %s) in %s' % (sorted(got, key=str), want_reps, p))
        st_, vs, inc = explore(h, entry, None, post=post, base=[shape >= task['lo'], shape < task['hi']], stats=stats, seed=common.seed())

    elif part == 'params':
        # repeated parameter names are reported: parameter names are symbolic one-character strings
        n = task['n']; fn = pr.find('ensure_unique_variables', crate='structure')
        cs = [z3.Int('p%d' % i) for i in range(n)]
        for i, c in enumerate(cs): h.inputs['p%d' % i] = c
        basep = [z3.And(c >= 97, c <= 99) for c in cs]

        def entry(ex):
            ex.notes['reports'] = []
            body = build_ast(ir, (('U', 'z'),))
            params = ir.S('Parameters', param_names=VecV([ir.name(StrV([c])) for c in cs]), file_id=some(0), file_location=ir.range_(1, 2))
            return ex.call_mir(fn, [Ref([body], 0), Ref([params], 0), Ref([VecV([])], 0)])

        def post(ex, res):
            names = [ex.concretize(c, 97, 99) for c in cs]
            dup = len(set(names)) != len(names)
            ex.oblige((res.var == 'Err') == dup, 'param-collision', 'repeated parameter names are rejected, distinct ones accepted (names %s, result %s)' % (''.join(map(chr, names)), res.var))
            if res.var == 'Err':
                e = deref(res.f[0])
                ex.oblige(e.var == 'ParameterNameCollisionError', 'param-collision', 'the error is the parameter name collision error')
                if e.var == 'ParameterNameCollisionError':
                    first_dup = next(chr(x) for i, x in enumerate(names) if x in names[:i])
                    chars = deref(ir.get(e, 'name')).chars
                    ex.oblige(len(chars) == 1 and simp(eq(chars[0], ord(first_dup))), 'param-collision', 'the error names the repeated parameter `%s`' % first_dup)
        st_, vs, inc = explore(h, entry, None, post=post, base=basep, stats=stats, seed=common.seed())

    elif part in ('keys', 'scopes'):
        envnew = pr.method(None, 'Environment', 'new', file_hint='ssa_impl')
        nextv = pr.method(None, 'Environment', 'get_next_version', file_hint='ssa_impl')
        curv = pr.method(None, 'Environment', 'get_current_version', file_hint='ssa_impl')
        addsc = pr.method('SSAEnvironment', 'Environment', 'add_variable_scope', file_hint='ssa_impl')
        remsc = pr.method('SSAEnvironment', 'Environment', 'remove_variable_scope', file_hint='ssa_impl')
        ALPHA = lambda c, first=False: z3.Or(z3.And(c >= 97, c <= 122), c == 95, z3.And(c >= 65, c <= 90)) if first else z3.Or(z3.And(c >= 97, c <= 122), c == 95, z3.And(c >= 48, c <= 57), z3.And(c >= 65, c <= 90))
        base = []

        def sym_ident(tag, n, suffix=False):
            cs = [z3.Int('%s%d' % (tag, i)) for i in range(n)]
            for i, c in enumerate(cs):
                h.inputs['%s%d' % (tag, i)] = c
                base.append(z3.And(c >= 48, c <= 57) if suffix else ALPHA(c, first=(i == 0)))
            return cs

        def vname(nchars, schars):
            return Struct('VariableName', [StrV(nchars), some(StrV(schars)) if schars is not None else none(), none()])

        def fresh_env(ex):
            params = ir.S('Parameters', param_names=VecV([]), file_id=some(0), file_location=ir.range_(0, 0))
            return ex.call_mir(envnew, [Ref([params], 0), Ref([Struct('Declarations', [MapV()])], 0)])
        if part == 'keys':
            n1 = sym_ident('n1_', task['ln1']); s1 = sym_ident('s1_', task['ls1'], True) if task['ls1'] else None
            n2 = sym_ident('n2_', task['ln2']); s2 = sym_ident('s2_', task['ls2'], True) if task['ls2'] else None

            def same_pair():
                if (s1 is None) != (s2 is None) or len(n1) != len(n2) or (s1 is not None and len(s1) != len(s2)): return False
                return simp(z3.And(*([a == b for a, b in zip(n1, n2)] + ([a == b for a, b in zip(s1, s2)] if s1 is not None else []))))

            def entry(ex):
                env = fresh_env(ex); cell = [env]
                v1 = ex.call_mir(nextv, [Ref(cell, 0), Ref([vname(n1, s1)], 0)])
                v2 = ex.call_mir(nextv, [Ref(cell, 0), Ref([vname(n2, s2)], 0)])
                c1 = ex.call_mir(curv, [Ref(cell, 0), Ref([vname(n1, s1)], 0)])
                return v1, v2, c1

            def post(ex, res):
                v1, v2, c1 = res; sp = same_pair()
                ex.oblige(simp(eq(v1, 0)), 'fresh', 'the first version issued for a variable is 0')
                ex.oblige(simp(eq(v2, ite(sp, 1, 0))) if is_sym(sp) else simp(eq(v2, 1 if sp else 0)), 'key-collision',
                          'two different (name, suffix) pairs never share a version counter; the same pair gets the next version')
                want1 = ite(sp, 1, 0) if is_sym(sp) else (1 if sp else 0)
                ex.oblige(c1.var == 'Some', 'current', 'a variable that was issued a version has a current version')
                if c1.var == 'Some':
                    ex.oblige(simp(eq(c1.f[0], want1)), 'key-collision', 'the current version of the first variable is unaffected by the second unless they are the same variable')
            st_, vs, inc = explore(h, entry, None, post=post, base=base, stats=stats, seed=common.seed())
        else:
            def entry(ex):
                env = fresh_env(ex); cell = [env]; x = lambda: Ref([vname([120], None)], 0)
                out = [ex.call_mir(nextv, [Ref(cell, 0), x()])]
                ex.call_mir(addsc, [Ref(cell, 0)])
                out.append(ex.call_mir(nextv, [Ref(cell, 0), x()])); out.append(ex.call_mir(curv, [Ref(cell, 0), x()]))
                ex.call_mir(remsc, [Ref(cell, 0)])
                out.append(ex.call_mir(curv, [Ref(cell, 0), x()])); out.append(ex.call_mir(nextv, [Ref(cell, 0), x()]))
                return out

            def post(ex, res):
                v0, v1, cin, cout, v2 = res
                ex.oblige(v0 == 0 and v1 == 1 and cin.var == 'Some' and cin.f[0] == 1, 'scope', 'inside a scope the newest version is current')
                ex.oblige(cout.var == 'Some' and cout.f[0] == 0, 'scope', 'leaving a scope restores the version current at entry')
                ex.oblige(v2 == 2, 'fresh', 'versions are never re-issued after a scope is left')
            st_, vs, inc = explore(h, entry, None, post=post, stats=stats, seed=common.seed())

    else:   # split
        ln, lv = task['ln'], task['lv']
        fn = pr.method('TryLift', 'String', 'try_lift', file_hint='intermediate_representation/lifting')
        nm = [z3.Int('n%d' % i) for i in range(ln)]; ver = [z3.Int('v%d' % i) for i in range(lv)]
        for i, c in enumerate(nm): h.inputs['n%d' % i] = c
        for i, c in enumerate(ver): h.inputs['v%d' % i] = c
        base = [z3.Or(z3.And(c >= 97, c <= 122), c == 95, z3.And(c >= 48, c <= 57)) for c in nm] + [z3.And(c >= 48, c <= 57) for c in ver]
        text = nm + ([46] + ver if lv else [])
        meta = Struct('ast::Meta', [0, 0, 0, ir.range_(0, 0), some(0), Opaque('ci'), Opaque('tk'), Opaque('mk')])

        def post(ex, res):
            ex.oblige(res.var == 'Ok', 'split', '`name` / `name.N` lifts to a variable name')
            if res.var != 'Ok': return
            v = res.f[0]
            got_n = ir.get(v, 'name').chars; got_s = ir.get(v, 'suffix')
            ex.oblige(len(got_n) == ln, 'split', 'the name part has the right length')
            if len(got_n) == ln: ex.oblige(simp(z3.And(*[zint(a) == b for a, b in zip(got_n, nm)])), 'split', 'the name part is recovered')
            if lv:
                ex.oblige(got_s.var == 'Some' and len(got_s.f[0].chars) == lv, 'split', 'the suffix is recovered')
            else:
                ex.oblige(got_s.var == 'None', 'split', 'no suffix without a dot')
        st_, vs, inc = explore(h, fn, lambda ex: [Ref([StrV(text)], 0), Ref([meta], 0), Ref([VecV([])], 0)], post=post, base=base, stats=stats, seed=common.seed())
    for v in vs: v.extra['task'] = task
    return {'stats': common.pack_stats(stats), 'violations': [common.pack_violation(v) for v in vs]}


def as_conc(v):
    v = deref(v)
    while isinstance(v, Ref): v = deref(v)
    return v.concrete() if isinstance(v, StrV) else v


# ----------------------------------------------------------------------------- replay
def source_of(p, const_dims=False):
    """Circom function for a scope skeleton + expected shadow warnings"""
    lines = []; cnt = [0]
    def emit(items, ind):
        for it in items:
            cnt[0] += 1
            if it[0] == 'I':
                lines.append('    ' * ind + 'if (a == %d) {' % cnt[0]); emit(it[1], ind + 1); lines.append('    ' * ind + '} else {'); emit(it[2], ind + 1); lines.append('    ' * ind + '}')
            elif it[0] == 'B':
                lines.append('    ' * ind + 'if (a == %d) {' % cnt[0]); emit(it[1], ind + 1); lines.append('    ' * ind + '}')
            elif it[0] == 'D': lines.append('    ' * ind + 'var %s = %d;' % (it[1], cnt[0]))
            elif it[0] == 'X': lines.append('    ' * ind + 'var %s[%s];' % (it[1], '2' if const_dims else it[2]))
            elif it[0] == 'U': lines.append('    ' * ind + 'z = z + %s;' % it[1])
            else: lines.append('    ' * ind + '%s = %d;' % (it[1], cnt[0]))
    emit(p, 1)
    return 'pragma circom 2.0.0;\nfunction f(a) {\n    var z = 0;\n' + '\n'.join(lines) + '\n    return z;\n}\n'


def confirm_scope(p):
    """real pipeline: the number of shadowing warnings (CS0001) must equal the oracle's"""
    from . import C08
    ev = oracle_scope(p)
    # `if` bodies are blocks, so the scoping is the same as for bare blocks; undeclared uses make the real lifter fail: skip those
    if any(e[0] == 'U' and e[3] is None for e in ev): return None, 'uses an undeclared name (not a valid program)', None
    want = sum(1 for e in ev if e[0] == 'D' and e[3] is not None)
    d = tempfile.mkdtemp(prefix='vc10_', dir=common.CACHE)
    try:
        path = os.path.join(d, 'a.circom'); open(path, 'w').write(source_of(p))
        nat = common.Native(common.build_replay('vr_analysis'))
        out = nat.ask('analyzefile bn254 ' + path, timeout=30)
        # the same program with literal array sizes: resolving the size expression must not add or remove errors
        open(path, 'w').write(source_of(p, const_dims=True))
        ref = nat.ask('analyzefile bn254 ' + path, timeout=30); nat.close()
    finally:
        shutil.rmtree(d, ignore_errors=True)
    if not out.startswith('OK'): return True, out, 'a normal run'
    got = sum(1 for t in out.split()[1:] if t.startswith('CS0001:'))
    errs = lambda o: sorted(t.split(':')[0] for t in o.split()[1:] if t.split(':')[1] == 'error')
    return got != want or errs(out) != errs(ref), {'CS0001': got, 'errors': errs(out)}, {'CS0001': want, 'errors': errs(ref)}


def confirm_keys(m, t):
    """the colliding identifiers in a real program: a read of the outer variable inside the scope of the shadowing one"""
    def s(tag, n): return ''.join(chr(m.get('%s%d' % (tag, i), 97)) for i in range(n))
    a = (s('n1_', t['ln1']), s('s1_', t['ls1']) if t['ls1'] else None); b = (s('n2_', t['ln2']), s('s2_', t['ls2']) if t['ls2'] else None)
    # one of them must be a suffixed name (created by shadowing), the other a plain identifier equal to name_suffix
    plain, suff = (a, b) if a[1] is None else (b, a)
    if plain[1] is not None or suff[1] is None or suff[1] != '0': return None, 'collision not realizable with a single shadowing declaration (%s, %s)' % (a, b), None
    x = suff[0]; y = plain[0]
    src = 'pragma circom 2.0.0;\nfunction f(%s) {\n    var %s = 5;\n    if (%s == 1) {\n        var %s = 7;\n        return %s + %s;\n    }\n    return 0;\n}\n' % (x, y, x, x, y, x)
    d = tempfile.mkdtemp(prefix='vc10_', dir=common.CACHE)
    try:
        path = os.path.join(d, 'a.circom'); open(path, 'w').write(src)
        nat = common.Native(common.build_replay('vr_analysis'))
        out = nat.ask('analyzefile bn254 ' + path, timeout=30); nat.close()
    finally:
        shutil.rmtree(d, ignore_errors=True)
    # the value 5 assigned to y IS read; a `value never read` finding (CS0007/CS0008 family) for it is the observable symptom
    bad = (not out.startswith('OK')) or any(tk.split(':')[0] in ('CS0007', 'CS0008', 'CS0009') and tk.split(':')[2].startswith(str(src.index('var %s = 5' % y))) for tk in out.split()[1:])
    return bad, out[:300], 'no `value never read` finding for `var %s = 5`' % y


def main(tier, replay=None):
    rep = common.Report('C10', tier)
    if replay:
        d = json.load(open(replay))
        if d.get('program') is not None:
            import ast as _ast
            bad, got, exp = confirm_scope(_ast.literal_eval(d['program']))
        else: bad, got, exp = confirm_keys(d['violation']['model'], d['task'])
        print('replay: observed=%s expected=%s -> %s' % (got, exp, 'VIOLATION' if bad else 'holds')); return 1 if bad else 0
    for p in ((('D', 'a'), ('U', 'a')), (('D', 'b'), ('B', (('D', 'b'), ('U', 'b'))), ('U', 'b')), (('B', (('D', 'b'),)), ('B', (('D', 'b'), ('A', 'b'))))):
        bad, got, exp = confirm_scope(p); rep.validated += 1
        if bad: rep.inconclusive.append('fixed program %s: real pipeline %s, oracle %s' % (p, got, exp))
    ts = [dict(t, nodes=bounds(tier)) for t in tasks(tier)]
    results = common.run_tasks('specs.C10', ts)
    known = common.load_known('C10'); seen = {}
    for r in results:
        if 'error' in r:
            rep.inconclusive.append('task %s: %s' % (r['task'], r['error'][:500])); continue
        rep.add_stats(r['stats'])
        for v in r['violations']:
            t = r['task']
            role = {'function': {'scope': 'ensure_unique_variables', 'params': 'ensure_unique_variables (parameters)', 'keys': 'ssa_impl::Environment', 'scopes': 'ssa_impl::Environment', 'split': 'String::try_lift'}[t['part']], 'kind': v['kind'], 'class': 'any'}
            key = json.dumps(role, sort_keys=True)
            if key in seen: continue
            program = None
            if t['part'] == 'scope':
                program = all_programs(t['nodes'])[v['model'].get('shape', 0)]
                if v['kind'] == 'shadow-report': bad, got, exp = confirm_scope(program)
                elif "'X'" in repr(program):
                    bad, got, exp = confirm_scope(program)
                    if not bad: bad, got, exp = None, 'engine-level (renaming is internal; no visible symptom: %s)' % (got,), None
                else: bad, got, exp = None, 'engine-level (renaming is internal)', None
            elif t['part'] == 'keys': bad, got, exp = confirm_keys(v['model'], t)
            else: bad, got, exp = None, 'engine-level only', None
            rep.validated += 1
            if bad is False:
                rep.nonrepro.append({'task': t, 'violation': v, 'observed': got}); continue
            seen[key] = 1
            k = common.match_known(known, role)
            desc = '%s [%s] model %s observed=%s expected=%s' % (v['msg'], {k_: x for k_, x in t.items() if k_ != 'nodes'}, v['model'], got, exp)
            if k: rep.known_hits.append('%s (%s)' % (k['id'], desc[:300]))
            else:
                rep.violations.append(rep.save_replay(role, {'property': 'C10', 'task': t, 'violation': v, 'program': repr(program) if program is not None else None, 'observed': got, 'expected': exp, 'native_replay': bad is True}))
                common.log('VIOLATION detail:', desc)
    if rep.nonrepro and not rep.violations:
        rep.inconclusive.append('%d counterexamples did not reproduce natively, e.g. %s' % (len(rep.nonrepro), json.dumps(rep.nonrepro[0], default=str)[:400]))
    pr = prog()
    rep.bounds = {'scope': 'every program with <= %d items (declaration / read / assignment of two names, at most one array declaration `var n[m]` whose size reads a name, blocks, at most one if-else whose branches are sibling scopes, any nesting; %d programs), one parameter' % (bounds(tier), len(all_programs(bounds(tier)))),
                  'keys': 'identifier strings of 1..3 symbolic characters [A-Za-z0-9_], optional 1-digit suffix', 'split': 'names of 1..3 chars, version of 0..2 digits'}
    rep.stubs = ['unique_vars::build_report (arguments captured)']
    rep.assumptions = ['HashMap<String,_> modelled as association lists with symbolic string equality', 'source hash ' + pr.hashes['structure']]
    rep.outside = ['the statement/expression traversal of ssa_impl.rs that applies the version keys', 'for-loop scoping as produced by the parser', 'longer identifiers and more names', 'repeated parameter names (checked under C02/C03 through the real binary only)']
    return rep.finish()
