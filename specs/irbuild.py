"""Builds circomspect IR values (the data the code under test receives) for the executor.

Only *shapes* come from here (field order is read from /repo's struct and enum definitions);
leaves may be symbolic.  Nothing here encodes behaviour.
"""
import z3
from mirsym.values import *
from mirsym.models import some, none
from mirsym.models_coll import MapV, SetV, BitSetV


class IR:
    def __init__(self, prog):
        self.prog = prog; self.defs = prog.defs

    # ---- generic constructors by field name
    def S(self, ty, **kw):
        fields = self.defs.struct_fields(ty)
        if fields is None: raise KeyError('struct ' + ty)
        missing = [f for f in fields if f not in kw]
        extra = [k for k in kw if k not in fields]
        if missing or extra: raise KeyError('struct %s: missing %s, unknown %s' % (ty, missing, extra))
        return Struct(ty, [kw[f] for f in fields])

    def E(self, ty, variant, *pos, **kw):
        vs = self.defs.enum_variants(ty)
        if vs is None: raise KeyError('enum ' + ty)
        for name, d, fields in vs:
            if name == variant:
                if fields and isinstance(fields[0], str):
                    missing = [f for f in fields if f not in kw]
                    if missing or len(kw) != len(fields): raise KeyError('%s::%s: fields %s, got %s' % (ty, variant, fields, list(kw)))
                    return Enum(ty, variant, [kw[f] for f in fields])
                if len(pos) != len(fields or []): raise KeyError('%s::%s arity' % (ty, variant))
                return Enum(ty, variant, list(pos))
        raise KeyError('%s::%s' % (ty, variant))

    def get(self, v, field):
        """read a named field of a Struct / struct-like Enum variant."""
        v = deref(v)
        if isinstance(v, Struct):
            return v.f[self.defs.struct_fields(v.ty).index(field)]
        vs = self.defs.enum_variants(v.ty)
        for name, d, fields in vs:
            if name == v.var: return v.f[fields.index(field)]
        raise KeyError(field)

    # ---- metadata
    def range_(self, a, b): return Struct('ops::Range', [a, b])

    def degree(self, rank):
        return Enum('Degree', ['Constant', 'Linear', 'Quadratic', 'NonQuadratic'][rank]) if isinstance(rank, int) else Enum('Degree', rank)

    def drange(self, lo, hi): return Struct('DegreeRange', [self.degree(lo), self.degree(hi)])

    def fe(self, v): return Enum('ValueReduction', 'FieldElement', [BigV(v)])
    def boolean(self, b): return Enum('ValueReduction', 'Boolean', [b])

    def vtype(self, kind, sig='Intermediate'):
        if kind == 'signal': return Enum('ir::VariableType', 'Signal', [Enum('ir::SignalType', sig), VecV([])])
        return Enum('ir::VariableType', {'local': 'Local', 'component': 'Component', 'anonymous': 'AnonymousComponent'}[kind])

    def meta(self, start=0, end=0, file_id=0, degree=None, vtype=None, value=None):
        vk = Struct('VariableKnowledge', [none() for _ in self.defs.struct_fields('VariableKnowledge')])
        return Struct('ir::Meta', [
            self.range_(start, end), some(file_id) if file_id is not None else none(),
            Struct('DegreeKnowledge', [some(degree) if degree is not None else none()]),
            Struct('TypeKnowledge', [some(vtype) if vtype is not None else none()]),
            Struct('ValueKnowledge', [some(value) if value is not None else none()]),
            vk])

    def name(self, s, suffix=None, version=None):
        return Struct('VariableName', [StrV.of(s) if isinstance(s, str) else s, some(StrV.of(suffix)) if suffix is not None else none(),
                                       some(version) if version is not None else none()])

    # ---- expressions
    X = 'ir::Expression'

    def number(self, v, meta=None): return Enum(self.X, 'Number', [meta or self.meta(), BigV(v)])
    def variable(self, name, meta=None): return self.E(self.X, 'Variable', meta=meta or self.meta(), name=name if not isinstance(name, str) else self.name(name))
    def infix(self, op, l, r, meta=None):
        return self.E(self.X, 'InfixOp', meta=meta or self.meta(), lhe=BoxV(l), infix_op=op if not isinstance(op, str) else Enum('ir::ExpressionInfixOpcode', op), rhe=BoxV(r))
    def prefix(self, op, e, meta=None):
        return self.E(self.X, 'PrefixOp', meta=meta or self.meta(), prefix_op=op if not isinstance(op, str) else Enum('ir::ExpressionPrefixOpcode', op), rhe=BoxV(e))
    def switch(self, c, t, f, meta=None): return self.E(self.X, 'SwitchOp', meta=meta or self.meta(), cond=BoxV(c), if_true=BoxV(t), if_false=BoxV(f))
    def call(self, name, args, meta=None): return self.E(self.X, 'Call', meta=meta or self.meta(), name=StrV.of(name) if isinstance(name, str) else name, args=VecV(list(args)))
    def inline_array(self, values, meta=None): return self.E(self.X, 'InlineArray', meta=meta or self.meta(), values=VecV(list(values)))
    def access(self, var, acc, meta=None): return self.E(self.X, 'Access', meta=meta or self.meta(), var=var if not isinstance(var, str) else self.name(var), access=VecV(list(acc)))
    def update(self, var, acc, rhe, meta=None):
        return self.E(self.X, 'Update', meta=meta or self.meta(), var=var if not isinstance(var, str) else self.name(var), access=VecV(list(acc)), rhe=BoxV(rhe))
    def phi(self, args, meta=None): return self.E(self.X, 'Phi', meta=meta or self.meta(), args=VecV([a if not isinstance(a, str) else self.name(a) for a in args]))
    def array_access(self, idx): return Enum('ir::AccessType', 'ArrayAccess', [BoxV(idx)])
    def component_access(self, s): return Enum('ir::AccessType', 'ComponentAccess', [StrV.of(s)])

    # ---- statements
    T = 'ir::Statement'

    def subst(self, var, op, rhe, meta=None):
        return self.E(self.T, 'Substitution', meta=meta or self.meta(), var=var if not isinstance(var, str) else self.name(var),
                      op=op if not isinstance(op, str) else Enum('ir::AssignOp', op), rhe=rhe)
    def constraint_eq(self, l, r, meta=None): return self.E(self.T, 'ConstraintEquality', meta=meta or self.meta(), lhe=l, rhe=r)
    def ifelse(self, cond, t, f=None, meta=None):
        return self.E(self.T, 'IfThenElse', meta=meta or self.meta(), cond=cond, true_index=t, false_index=some(f) if f is not None else none())
    def ret(self, v, meta=None): return self.E(self.T, 'Return', meta=meta or self.meta(), value=v)
    def assert_(self, e, meta=None): return self.E(self.T, 'Assert', meta=meta or self.meta(), arg=e)
    def decl(self, names, var_type, dims=(), meta=None):
        nev = self.nonempty([n if not isinstance(n, str) else self.name(n) for n in names])
        return self.E(self.T, 'Declaration', meta=meta or self.meta(), names=nev, var_type=var_type, dimensions=VecV(list(dims)))

    def nonempty(self, items):
        fields = self.defs.struct_fields('NonEmptyVec')
        vals = {'head': items[0], 'tail': VecV(list(items[1:]))}
        return Struct('NonEmptyVec', [vals[f] for f in fields])

    # ---- blocks / cfg
    def block(self, index, stmts, preds=(), succs=(), loop_depth=0, n=None, meta=None):
        mk = (lambda xs: BitSetV(n, [i in xs for i in range(n)])) if n else (lambda xs: SetV(list(xs)))
        return self.S('BasicBlock', index=index, meta=meta or self.meta(), loop_depth=loop_depth, stmts=VecV(list(stmts)), predecessors=mk(preds), successors=mk(succs))

    def constants(self, ex, curve):
        cnew = self.prog.method(None, 'UsefulConstants', 'new')
        return ex.call_mir(cnew, [Ref([curve if not isinstance(curve, str) else Enum('Curve', curve)], 0)])

    def cfg(self, ex, name, curve, blocks, def_type='Template', params=(), declarations=None, domtree=None):
        return self.S('Cfg', name=StrV.of(name), constants=self.constants(ex, curve),
                      parameters=self.S('Parameters', param_names=VecV([self.name(p) if isinstance(p, str) else p for p in params]), file_id=some(0), file_location=self.range_(0, 0)),
                      declarations=declarations if declarations is not None else Struct('Declarations', [MapV()]),
                      basic_blocks=VecV(list(blocks)), definition_type=Enum('DefinitionType', def_type) if isinstance(def_type, str) else def_type,
                      dominator_tree=domtree if domtree is not None else Opaque('domtree'))
