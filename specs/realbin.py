"""Replay of output-contract scenarios against the real `circomspect` binary (built from /repo's
working tree): the scenario is turned into a small project on disk, the binary is run with the
scenario's options, and exit status / summary line / displayed diagnostics / SARIF results are
compared with what the property demands."""
import os, re, json, subprocess, tempfile, shutil
from . import common

_bin = None
REPO = common.REPO


def binary():
    global _bin
    if _bin: return _bin
    tdir = os.path.join(common.CACHE, 'repo-target')
    env = dict(os.environ, CARGO_NET_OFFLINE='true')
    r = subprocess.run(['cargo', 'build', '-q', '--offline', '-p', 'circomspect', '--target-dir', tdir], cwd=REPO, env=env, capture_output=True, text=True)
    if r.returncode != 0: raise RuntimeError('building circomspect failed:\n' + r.stderr[-3000:])
    _bin = os.path.join(tdir, 'debug', 'circomspect')
    return _bin


def all_ids():
    src = open(os.path.join(REPO, 'program_structure/src/program_library/report_code.rs')).read()
    return sorted(set(re.findall(r'"((?:CS|CA|P|T|R)\d{4})"', src)))


REAL = {  # (real id, header keyword, construct)
    'CS0001': ('warning', 'function sh%(i)d(a) {\n    var r = a;\n    if (a == 1) {\n        var r = 2;\n        r += 1;\n    }\n    return r;\n}\n'),
    'CS0005': ('warning', 'template sa%(i)d() {\n    signal input a;\n    signal output b;\n    b <-- a >> 1;\n    b === a;\n}\n'),
    'P1000': ('error', 'include "missing_%(i)d.circom";\n'),
    'CS0003': ('note', 'function fc%(i)d(a) {\n    var r = 0;\n    if (a < 3) {\n        r = 1;\n    }\n    return r;\n}\n'),
}
INFO_ID = None


def run(args, cwd, timeout=60):
    def lim():
        import resource
        resource.setrlimit(resource.RLIMIT_AS, (4 << 30, 4 << 30))
    try:
        r = subprocess.run([binary()] + args, cwd=cwd, capture_output=True, text=True, timeout=timeout, preexec_fn=lim)
        return r.returncode, r.stdout + r.stderr
    except subprocess.TimeoutExpired:
        return 'TIMEOUT', ''


def headers(out):
    return [m.group(1) for m in re.finditer(r'^(error|warning|note)(?:\[[A-Z0-9]+\])?: ', out, re.M)]


def summary(out):
    m = re.search(r'circomspect: (No issues found\.|1 issue found\.|(\d+) issues found\.)', out)
    if not m: return None
    if m.group(1).startswith('No'): return 0
    if m.group(1).startswith('1 issue'): return 1
    return int(m.group(2))


def confirm(sc):
    if sc.get('kind') == 'order': return confirm_order()
    if sc.get('kind') == 'runner': return confirm_runner(sc)
    if sc.get('kind') == 'version': return confirm_version(sc)
    if sc.get('kind') == 'missing-input':
        d = tempfile.mkdtemp(prefix='vreal_', dir=common.CACHE)
        try:
            open(os.path.join(d, 'good.circom'), 'w').write('pragma circom 2.0.0;\ntemplate T() { signal input a; signal output b; b <== a; }\n')
            args = [os.path.join(d, 'good.circom'), os.path.join(d, 'missing.circom')] if sc.get('n', 1) > 1 else [os.path.join(d, 'missing.circom')]
            rc, out = run(args, d)
            got = {'exit': rc, 'kinds': sorted(headers(out))}; exp = {'exit': 1, 'kinds': ['error']}
            return got != exp, got, exp
        finally:
            shutil.rmtree(d, ignore_errors=True)
    if sc.get('kind') == 'multiple-main':
        # a named file with a main component that includes a file with another main component
        d = tempfile.mkdtemp(prefix='vreal_', dir=common.CACHE)
        try:
            body = 'template T() { signal input a; signal output b; b <== a; }\ncomponent main = T();\n'
            open(os.path.join(d, 'inc.circom'), 'w').write('pragma circom 2.0.0;\n' + body)
            open(os.path.join(d, 'a.circom'), 'w').write('pragma circom 2.0.0;\ninclude "inc.circom";\n' + body.replace('T()', 'U()').replace('template T', 'template U'))
            rc, out = run([os.path.join(d, 'a.circom')], d)
            got = {'exit': rc, 'kinds': sorted(headers(out)), 'summary': summary(out)}; exp = {'exit': 1, 'an error': True}
            return not (rc == 1 and 'error' in got['kinds']), got, exp
        finally:
            shutil.rmtree(d, ignore_errors=True)
    if sc.get('kind') == 'lift-error':
        # a definition that cannot be lifted, with --level error: the real binary must display an error and exit non-zero
        src = {'ParameterNameCollisionError': 'pragma circom 2.0.0;\ntemplate T(a, a) { signal input x; signal output y; y <== x; }\n',
               'UndefinedVariableError': 'pragma circom 2.0.0;\nfunction f(a) { return b; }\ntemplate T() { signal input x; signal output y; y <== x + f(1); }\n'}.get(sc.get('variant'))
        if src is None: return True, 'no source form for %s (reported from the engine run)' % sc.get('variant'), None
        d = tempfile.mkdtemp(prefix='vreal_', dir=common.CACHE)
        try:
            open(os.path.join(d, 'a.circom'), 'w').write(src)
            rc, out = run(['--level', 'error', os.path.join(d, 'a.circom')], d)
            got = {'exit': rc, 'kinds': sorted(headers(out)), 'summary': summary(out)}; exp = {'exit': 1, 'an error': True}
            return not (rc == 1 and 'error' in got['kinds']), got, exp
        finally:
            shutil.rmtree(d, ignore_errors=True)
    return confirm_main(sc)


def law(rep, sc, allow_real):
    sev = {'Info': 0, 'Warning': 1, 'Error': 2}
    if sev[rep['category']] < sev[sc['level']]: return False
    if rep['real_id'] in allow_real: return False
    if rep['files'] and not any(f in sc['user'] for f in rep['files']): return False
    return True


def confirm_main(sc):
    """-> (violated?, observed, expected)"""
    user = sc['user']
    if not user: return False, 'unrealizable: no user file', None
    d = tempfile.mkdtemp(prefix='vreal_', dir=os.path.join(common.CACHE))
    try:
        files = {i: '' for i in range(3)}; incl = {i: '' for i in range(3)}
        reps = []; extra_args = []; allow_real = set()
        for i, r in enumerate(sc['reports']):
            cat = r['category']
            rid = {'Error': 'P1000', 'Warning': {'ShadowingVariable': 'CS0001', 'SignalAssignmentStatement': 'CS0005'}.get(r['code'], 'CS0001'), 'Info': 'CS0003'}[cat]
            model_id = {'ParseFail': 'P1000', 'ShadowingVariable': 'CS0001', 'SignalAssignmentStatement': 'CS0005', 'FieldElementComparison': 'CS0003'}[r['code']]
            allowed = model_id in sc['allow']
            rr = {'category': cat, 'real_id': rid, 'files': r['files'][:1], 'allowed': allowed}
            if rid == 'P1000' and not r['files']:
                extra_args.append(os.path.join(d, 'does_not_exist_%d.circom' % i))
            else:
                f = r['files'][0] if r['files'] else user[0]
                if not r['files']: rr['files'] = [f]
                if rid != 'P1000' and f not in user:
                    pass     # construct sits in an included file: never analysed, never displayed (and the law says not displayed)
                if rid == 'P1000': incl[f] += REAL[rid][1] % {'i': i}
                else: files[f] += REAL[rid][1] % {'i': i}
            reps.append(rr)
        # consistent allow list over real ids
        for rr in reps:
            if rr['allowed']: allow_real.add(rr['real_id'])
        for rr in reps:
            if not rr['allowed'] and rr['real_id'] in allow_real: return False, 'unrealizable: allow list conflict after mapping to real ids', None
        # included (non-user) files are included from the first user file
        for i in range(3):
            if i not in user: incl[user[0]] += 'include "f%d.circom";\n' % i
        for i, src in files.items(): open(os.path.join(d, 'f%d.circom' % i), 'w').write('pragma circom 2.0.0;\n' + incl[i] + src)
        interesting = {'CS0001', 'CS0005', 'P1000', 'CS0003'}
        args = [os.path.join(d, 'f%d.circom' % i) for i in user] + extra_args + ['--level', sc['level'].upper()]
        # the scenario's own allow list first, in its order (mapped to the real ids), then the noise suppression, ascending
        first = []
        for x in sc['allow']:
            if x in allow_real and x not in first: first.append(x)
        for x in sorted(allow_real):
            if x not in first: first.append(x)
        for x in first: args += ['--allow', x]
        for x in all_ids():
            if x not in interesting: args += ['--allow', x]
        sarif = os.path.join(d, 'out.sarif')
        if sc.get('sarif'): args += ['--sarif-file', sarif]
        if sc.get('verbose'): args += ['--verbose']
        rc, out = run(args, d)
        want = [rr for rr in reps if law(rr, sc, allow_real) and not (rr['real_id'] != 'P1000' and rr['files'] and rr['files'][0] not in user)]
        exp = {'displayed': len(want), 'exit': 0 if not want else 1, 'summary': len(want), 'kinds': sorted(REAL[rr['real_id']][0] for rr in want)}
        got = {'displayed': len(headers(out)), 'exit': rc, 'summary': summary(out), 'kinds': sorted(headers(out))}
        if sc.get('sarif'):
            n = 0
            if os.path.exists(sarif):
                try: n = sum(len(run_.get('results', [])) for run_ in json.load(open(sarif)).get('runs', []))
                except Exception: n = -1
            got['sarif'] = n; exp['sarif'] = len(want)
        return got != exp, got, exp
    finally:
        shutil.rmtree(d, ignore_errors=True)


def confirm_order():
    """--level filters by severity: a warning is shown at info and warning, hidden at error"""
    d = tempfile.mkdtemp(prefix='vreal_', dir=common.CACHE)
    try:
        open(os.path.join(d, 'a.circom'), 'w').write('pragma circom 2.0.0;\n' + REAL['CS0005'][1] % {'i': 0})
        got = {}
        for lvl in ('INFO', 'WARNING', 'ERROR'):
            args = [os.path.join(d, 'a.circom'), '--level', lvl]
            for x in all_ids():
                if x != 'CS0005': args += ['--allow', x]
            rc, out = run(args, d); got[lvl] = len(headers(out))
        exp = {'INFO': 1, 'WARNING': 1, 'ERROR': 0}
        return got != exp, got, exp
    finally:
        shutil.rmtree(d, ignore_errors=True)


def confirm_runner(sc):
    """definitions with CFG-stage findings (shadowing declarations), a possibly failing lift (variable read
    before its declaration), stored in the scenario's order, some instantiating (= looking up) another:
    every such finding of a user-file definition must be displayed exactly once."""
    d = tempfile.mkdtemp(prefix='vreal_', dir=common.CACHE)
    try:
        user_src = ''; inc_src = ''
        exp_n = 0
        tmpl = sc.get('defkind', 'template') == 'template'
        for df in sc['defs']:
            i = df['id']
            body = ''
            for k in range(df.get('cfg_reports', 0)):
                body += '    var r%d = %d;\n    if (n == %d) {\n        var r%d = %d;\n        r%d += 1;\n    }\n' % (k, k, k, k, k + 1, k)
            if df.get('fails'): body += '    var q = z;\n    var z = 1;\n'
            if tmpl:
                comp = ''
                l = df.get('looks_up')
                if l is not None:
                    comp = '    component c = d%d(n);\n    c.x <== x;\n' % l
                src = 'template d%d(n) {\n    signal input x;\n    signal output y;\n%s%s    y <== x;\n}\n' % (i, body, comp)
            else:
                src = 'function d%d(n) {\n%s    return n;\n}\n' % (i, body)
            if df.get('user'):
                user_src += src
                exp_n += df.get('cfg_reports', 0) + (1 if df.get('fails') else 0)
            else: inc_src += src
        open(os.path.join(d, 'inc.circom'), 'w').write('pragma circom 2.0.0;\n' + inc_src)
        open(os.path.join(d, 'a.circom'), 'w').write('pragma circom 2.0.0;\ninclude "inc.circom";\n' + user_src)
        ids = ('CS0001', 'T2003')
        args = [os.path.join(d, 'a.circom'), '--level', 'INFO']
        for x in all_ids():
            if x not in ids: args += ['--allow', x]
        rc, out = run(args, d)
        got = {'displayed': len(headers(out)), 'exit': rc, 'summary': summary(out)}
        exp = {'displayed': exp_n, 'exit': 0 if exp_n == 0 else 1, 'summary': exp_n}
        return got != exp, got, exp
    finally:
        shutil.rmtree(d, ignore_errors=True)


def confirm_version(sc):
    """a file with `pragma circom a.b.c;`: supported (same major, <= 2.1.4) => clean, otherwise an error and exit 1"""
    d = tempfile.mkdtemp(prefix='vreal_', dir=common.CACHE)
    try:
        req = sc['req']
        body = 'template T() {\n    signal input a;\n    signal output b;\n    b <== a;\n}\n'
        src = ('pragma circom %d.%d.%d;\n' % tuple(req) if req else '') + body
        open(os.path.join(d, 'a.circom'), 'w').write(src)
        args = [os.path.join(d, 'a.circom'), '--level', 'INFO']
        rc, out = run(args, d)
        hs = headers(out)
        if req is None:
            exp = {'exit': 1, 'kinds': ['warning']}
        else:
            sup = req[0] == 2 and (req[1] < 1 or (req[1] == 1 and req[2] <= 4))
            exp = {'exit': 0 if sup else 1, 'kinds': [] if sup else ['error']}
        got = {'exit': rc, 'kinds': sorted(hs)}
        return got != exp, got, exp
    finally:
        shutil.rmtree(d, ignore_errors=True)
