"""One-step soundness of the IR propagation rules (C06-X values, C07-X degrees).

Pre-state: an environment whose entries are symbolic and assumed SOUND (a known degree range contains
the variable's true degree; a known value equals the variable's run-time value).  One node of each
kind is built over `Variable` children and the real Expression/Statement::propagate_* is run from MIR
until it reports no change.  Post: whatever the node now claims is sound w.r.t. the oracle.
Together with the fact that propagation only ever calls these rules, soundness of every prefix of
the fixpoint iteration follows by induction (this is what C20 relies on).
"""
import re, json
import z3
from mirsym.engine import Harness, explore, Stats, Unsupported
from mirsym.values import *
from mirsym.models import some, none
from mirsym.models_coll import MapV
from . import common
from .irbuild import IR

DEGREE_NODES = ['number', 'variable', 'infix', 'prefix', 'switch', 'call', 'inline_array', 'access', 'update', 'phi', 'subst', 'decl']
VALUE_NODES = ['number', 'variable', 'infix', 'prefix', 'switch', 'phi', 'subst', 'subst_update', 'subst_signal']
NV = 3
P = 21888242871839275222246405745257275088548364400416034343698204186575808495617


def zmax(a, b): return z3.If(a >= b, a, b)


# =============================================================================== degrees
def run_degree_rule(pr, task):
    from .C07 import ref_infix, ref_prefix
    ir = IR(pr); node_kind = task['node']
    h = Harness(pr, 'structure')
    known = [z3.Bool('known%d' % i) for i in range(NV)]
    lo = [z3.Int('lo%d' % i) for i in range(NV)]; hi = [z3.Int('hi%d' % i) for i in range(NV)]; t = [z3.Int('t%d' % i) for i in range(NV)]
    local = [z3.Bool('local%d' % i) for i in range(NV)]
    op = z3.Int('op')
    h.inputs = dict([('known%d' % i, known[i]) for i in range(NV)] + [('lo%d' % i, lo[i]) for i in range(NV)] + [('hi%d' % i, hi[i]) for i in range(NV)] +
                    [('t%d' % i, t[i]) for i in range(NV)] + [('local%d' % i, local[i]) for i in range(NV)] + [('op', op)])
    base = []
    for i in range(NV):
        base += [lo[i] >= 0, hi[i] <= 3, lo[i] <= hi[i], t[i] >= 0, t[i] <= 3, z3.Implies(known[i], z3.And(lo[i] <= t[i], t[i] <= hi[i]))]
    infix_variants = pr.defs.enum_variants('ir::ExpressionInfixOpcode'); prefix_variants = pr.defs.enum_variants('ir::ExpressionPrefixOpcode')
    base += [op >= 0, op < (len(prefix_variants) if node_kind == 'prefix' else len(infix_variants))]
    names = ['v%d' % i for i in range(NV)]

    def env_of(ex):
        ks = [ex.decide(k) for k in known]
        ls = [ex.decide(l) for l in local]
        ex.notes['known'] = ks; ex.notes['local'] = ls
        dr = MapV([[ir.name(names[i]), ir.drange(lo[i], hi[i])] for i in range(NV) if ks[i]])
        vt = MapV([[ir.name(names[i]), ir.vtype('local' if ls[i] else 'signal')] for i in range(NV)] + [[ir.name('w', version=1), ir.vtype('local')]])
        return ir.S('DegreeEnvironment', degree_ranges=dr, var_types=vt)

    V = lambda i: ir.variable(names[i])
    is_stmt = node_kind in ('subst', 'decl')

    def build(ex):
        if node_kind == 'number': return ir.number(5)
        if node_kind == 'variable': return V(0)
        if node_kind == 'infix': return ir.infix(Enum('ir::ExpressionInfixOpcode', op), V(0), V(1))
        if node_kind == 'prefix': return ir.prefix(Enum('ir::ExpressionPrefixOpcode', op), V(0))
        if node_kind == 'switch': return ir.switch(V(0), V(1), V(2))
        if node_kind == 'call': return ir.call('f', [V(0), V(1)])
        if node_kind == 'inline_array': return ir.inline_array([V(0), V(1)])
        if node_kind == 'access': return ir.access(names[0], [ir.array_access(V(1))])
        if node_kind == 'update': return ir.update(names[0], [ir.array_access(V(1))], V(2))
        if node_kind == 'phi': return ir.phi([names[0], names[1], names[2]])
        if node_kind == 'subst': return ir.subst(ir.name('w', version=1), 'AssignLocalOrComponent', ir.infix('Mul', V(0), V(1)))
        if node_kind == 'decl': return ir.decl([ir.name('s')], ir.vtype('signal', 'Input'))
        raise KeyError(node_kind)

    def truth():
        """true total degree (rank 0..3) of the node's value in terms of the true degrees of the variables"""
        if node_kind == 'number': return z3.IntVal(0)
        if node_kind == 'variable': return t[0]
        if node_kind == 'infix': return None        # per opcode, below
        if node_kind == 'prefix': return None
        if node_kind == 'switch': return z3.If(t[0] == 0, zmax(t[1], t[2]), 3)
        if node_kind == 'call': return z3.If(z3.And(t[0] == 0, t[1] == 0), 0, 3)
        if node_kind == 'inline_array': return zmax(t[0], t[1])
        if node_kind == 'access': return z3.If(t[1] == 0, t[0], 3)          # a[i] with a non-constant index is a multiplexer, not a polynomial of bounded degree
        if node_kind == 'update': return z3.If(t[1] == 0, zmax(t[0], t[2]), 3)   # old array (v0) with one element replaced by v2
        if node_kind == 'phi': return zmax(t[0], zmax(t[1], t[2]))
        if node_kind == 'subst': return z3.If(t[0] + t[1] >= 3, 3, t[0] + t[1])
        if node_kind == 'decl': return z3.IntVal(1)

    stats = Stats()
    expr_fn = pr.method('DegreeMeta', 'Expression', 'propagate_degrees', file_hint='intermediate_representation')
    stmt_fn = pr.method(None, 'Statement', 'propagate_degrees', file_hint='intermediate_representation')

    def entry(ex):
        env = env_of(ex); node = build(ex)
        cell = [node]; envcell = [env]
        for it in range(6):
            ch = ex.call_mir(stmt_fn if is_stmt else expr_fn, [Ref(cell, 0), Ref(envcell, 0)])
            ch = ex.decide(ch) if is_sym(ch) else ch
            if not ch: break
        else:
            raise Unsupported('propagate_degrees did not stabilise within 6 calls')
        return cell[0], envcell[0]

    def claimed_end(ex, node):
        dk = ir.get(ir.get(node, 'meta') if not (isinstance(node, Enum) and node.var == 'Number') else node.f[0], 'degree_knowledge')
        o = dk.f[0]
        if o.var == 'None': return None
        return ex.discriminant(o.f[0].f[1])

    def post(ex, res):
        node, env = res
        ks = ex.notes['known']
        if is_stmt:
            dr = ir.get(env, 'degree_ranges')
            target = 'w' if node_kind == 'subst' else 's'
            e = [kv for kv in dr.entries if ir.get(kv[0], 'name').concrete() == target]
            if not e: return
            end = ex.discriminant(e[0][1].f[1])
            ex.oblige(simp(zint(end) >= truth()), 'degree-sound', '%s: the range published for `%s` contains its true degree' % (node_kind, target))
            return
        end = claimed_end(ex, node)
        if end is None: return          # no claim
        if node_kind == 'infix':
            for vn, d, _ in infix_variants:
                ex.oblige(simp(z3.Implies(op == d, zint(end) >= ref_infix(vn, t[0], t[1]))), 'degree-sound', 'InfixOp %s over variables: claimed bound >= true degree' % vn)
        elif node_kind == 'prefix':
            for vn, d, _ in prefix_variants:
                ex.oblige(simp(z3.Implies(op == d, zint(end) >= ref_prefix(vn, t[0]))), 'degree-sound', 'PrefixOp %s over a variable: claimed bound >= true degree' % vn)
        else:
            ex.oblige(simp(zint(end) >= truth()), 'degree-sound', '%s node: claimed upper bound >= true degree for every sound environment' % node_kind,
                      extra={'known': ks})
    st, vs, inc = explore(h, entry, None, post=post, base=base, stats=stats, seed=common.seed())
    for v in vs: v.extra['node'] = node_kind
    return {'stats': common.pack_stats(stats), 'violations': [common.pack_violation(v) for v in vs]}


def degree_class(v):
    node = v['extra'].get('node'); m = v['model']
    if node == 'update' and not m.get('known0'): return 'array-degree-unknown'
    if node in ('access', 'update') and not m.get('known1'): return 'index-degree-unknown'
    if node in ('access', 'update') and m.get('t1', 0) > 0: return 'index-not-constant'
    return 'any'


def confirm_degree(v, t, rep):
    """replay through the public API (vr_structure `rule degree ...`)"""
    from .C07 import native_degree
    m = v['model']; node = v['extra'].get('node')
    parts = []
    for i in range(NV):
        parts.append('%s:%d:%d:%s' % ('K' if m.get('known%d' % i) else 'U', m.get('lo%d' % i, 0), m.get('hi%d' % i, 0), 'L' if m.get('local%d' % i) else 'S'))
    got = native_degree('rule', node, [m.get('op', 0)] + parts); rep.validated += 1
    # the true degree under this valuation
    tt = [m.get('t%d' % i, 0) for i in range(NV)]
    need = concrete_truth(node, tt, m.get('op', 0))
    if got.startswith('PANIC'): conf = True
    elif got == 'None' or need is None: conf = False
    else: conf = int(got.split()[-1]) < need
    role = {'function': 'propagate_degrees/' + node, 'kind': 'degree-sound', 'class': degree_class(v)}
    desc = 'degree rule %s with env %s (true degrees %s): claimed %s, true degree %s' % (node, parts, tt, got, need)
    return conf, role, desc, {'property': 'C07', 'kind': 'rule', 'op': node, 'ranks': [m.get('op', 0)] + parts, 'need': need, 'observed': got}


def concrete_truth(node, t, op):
    from .C07 import ref_infix, ref_prefix
    pr_infix = ['Mul', 'Div', 'Add', 'Sub', 'Pow', 'IntDiv', 'Mod', 'ShiftL', 'ShiftR', 'LesserEq', 'GreaterEq', 'Lesser', 'Greater', 'Eq', 'NotEq', 'BoolOr', 'BoolAnd', 'BitOr', 'BitAnd', 'BitXor']
    pr_prefix = ['Sub', 'BoolNot', 'Complement']
    I = z3.IntVal
    if node == 'number': return 0
    if node == 'variable': return t[0]
    if node == 'infix': return simp(ref_infix(pr_infix[op], I(t[0]), I(t[1])))
    if node == 'prefix': return simp(ref_prefix(pr_prefix[op], I(t[0])))
    if node == 'switch': return max(t[1], t[2]) if t[0] == 0 else 3
    if node == 'call': return 0 if t[0] == 0 and t[1] == 0 else 3
    if node == 'inline_array': return max(t[0], t[1])
    if node == 'access': return t[0] if t[1] == 0 else 3
    if node == 'update': return max(t[0], t[2]) if t[1] == 0 else 3
    if node == 'phi': return max(t)
    if node == 'subst': return min(3, t[0] + t[1])
    if node == 'decl': return 1
    return None


# =============================================================================== values
def run_value_rule(pr, task):
    ir = IR(pr); node_kind = task['node']
    h = Harness(pr, 'structure')
    h.notes = {'max_bits': 254, 'prime_modulus': True}
    known = [z3.Int('vk%d' % i) for i in range(NV)]         # 0 unknown, 1 field element, 2 boolean
    r = [z3.Int('r%d' % i) for i in range(NV)]              # run-time value (field element; booleans are 1/0)
    h.inputs = dict([('vk%d' % i, known[i]) for i in range(NV)] + [('r%d' % i, r[i]) for i in range(NV)])
    base = []
    for i in range(NV):
        base += [known[i] >= 0, known[i] <= 2, r[i] >= 0, r[i] < P, z3.Implies(known[i] == 2, r[i] <= 1)]
    names = ['v%d' % i for i in range(NV)]
    V = lambda i: ir.variable(names[i])

    def env_of(ex):
        ks = [ex.concretize(k, 0, 2) for k in known]
        ex.notes['vk'] = ks
        ent = []
        for i in range(NV):
            if ks[i] == 1: ent.append([ir.name(names[i]), ir.fe(r[i])])
            elif ks[i] == 2: ent.append([ir.name(names[i]), ir.boolean(r[i] == 1)])
        return ir.S('ValueEnvironment', constants=ir.constants(ex, 'Bn254'), reduces_to=MapV(ent))

    is_stmt = node_kind.startswith('subst')

    def build(ex):
        if node_kind == 'number': return ir.number(7)
        if node_kind == 'variable': return V(0)
        if node_kind == 'infix': return ir.infix('Sub', V(0), V(1))
        if node_kind == 'prefix': return ir.prefix('Sub', V(0))
        if node_kind == 'switch': return ir.switch(V(0), V(1), V(2))
        if node_kind == 'phi': return ir.phi([names[0], names[1], names[2]])
        if node_kind == 'subst': return ir.subst(ir.name('w', version=1), 'AssignLocalOrComponent', V(0))
        if node_kind == 'subst_update': return ir.subst(ir.name('w', version=1), 'AssignLocalOrComponent', ir.update(ir.name('w', version=0), [ir.array_access(ir.number(0))], V(0)))
        if node_kind == 'subst_signal': return ir.subst(ir.name('sig'), 'AssignSignal', V(0))
        raise KeyError(node_kind)

    def runtime():
        """run-time value of the node as a field element, or a list of values it may take on different paths"""
        if node_kind == 'number': return [z3.IntVal(7)]
        if node_kind == 'variable': return [r[0]]
        if node_kind == 'infix': return [(r[0] - r[1]) % P]
        if node_kind == 'prefix': return [(-r[0]) % P]
        if node_kind == 'switch': return [z3.If(r[0] != 0, r[1], r[2])]
        if node_kind == 'phi': return [r[0], r[1], r[2]]          # any incoming path may be the one taken
        return [r[0]]

    stats = Stats()
    expr_fn = pr.method('ValueMeta', 'Expression', 'propagate_values', file_hint='intermediate_representation')
    stmt_fn = pr.method(None, 'Statement', 'propagate_values', file_hint='intermediate_representation')

    def entry(ex):
        env = env_of(ex); node = build(ex)
        cell = [node]; envcell = [env]
        for it in range(6):
            ch = ex.call_mir(stmt_fn if is_stmt else expr_fn, [Ref(cell, 0), Ref(envcell, 0)])
            ch = ex.decide(ch) if is_sym(ch) else ch
            if not ch: break
        else:
            raise Unsupported('propagate_values did not stabilise within 6 calls')
        return cell[0], envcell[0]

    def as_field(val):
        if val.var == 'FieldElement': return zint(val.f[0].t)
        return z3.If(zbool(val.f[0]), 1, 0)

    def post(ex, res):
        node, env = res
        meta = node.f[0] if (isinstance(node, Enum) and node.var == 'Number') else ir.get(node, 'meta')
        vk = ir.get(meta, 'value_knowledge').f[0]
        if is_stmt:
            rt = ir.get(env, 'reduces_to')
            pub = [kv for kv in rt.entries if ir.get(kv[0], 'name').concrete() in ('w', 'sig')]
            if node_kind == 'subst':
                for kv in pub:
                    ex.oblige(simp(as_field(kv[1]) == r[0]), 'value-sound', 'Substitution publishes exactly the value of its right-hand side under the assigned name')
            else:
                ex.oblige(len(pub) == 0, 'value-published', '%s must not publish a value (array update / unversioned signal)' % node_kind)
            return
        if vk.var == 'None': return
        val = vk.f[0]
        for rv in runtime():
            ex.oblige(simp(as_field(val) == rv), 'value-sound', '%s node: the attached constant equals the run-time value on every path, for every sound environment' % node_kind,
                      extra={'vk': ex.notes['vk']})
    st, vs, inc = explore(h, entry, None, post=post, base=base, stats=stats, seed=common.seed())
    for v in vs: v.extra['node'] = node_kind
    return {'stats': common.pack_stats(stats), 'violations': [common.pack_violation(v) for v in vs]}


def confirm_value(v, t, rep):
    from . import C06
    m = v['model']; node = v['extra'].get('node')
    parts = []
    for i in range(NV):
        k = m.get('vk%d' % i, 0); rv = m.get('r%d' % i, 0)
        parts.append('N:0' if k == 0 else ('F:%d' % rv if k == 1 else 'B:%s' % ('true' if rv == 1 else 'false')))
    if C06.NAT is None: C06.NAT = common.Native(common.build_replay('vr_structure'), mem_kb=2_000_000)
    got = C06.NAT.ask('rule value %s %s' % (node, ' '.join(parts))); rep.validated += 1
    rs = [m.get('r%d' % i, 0) for i in range(NV)]
    exp = concrete_runtime(node, rs)
    conf = False
    if got.startswith('PANIC'): conf = True
    elif node.startswith('subst'):
        # "Pub <value>|None"
        if node == 'subst': conf = got.startswith('Pub') and got != 'Pub None' and field_of(got[4:]) != rs[0]
        else: conf = got.startswith('Pub') and got != 'Pub None'
    elif got != 'None':
        conf = any(field_of(got) != e for e in exp)
    role = {'function': 'propagate_values/' + node, 'kind': v['kind'], 'class': 'any'}
    desc = 'value rule %s with env %s: attached %s, run-time value(s) %s' % (node, parts, got, exp)
    return conf, role, desc, {'property': 'C06', 'task': t, 'model': m, 'p': P, 'observed': got, 'expected': str(exp), 'rule': node, 'env': parts}


def field_of(s):
    k, val = s.split(' ')[:2]
    if k == 'F': return int(val)
    return 1 if val == 'true' else 0


def concrete_runtime(node, r):
    if node == 'number': return [7]
    if node == 'variable': return [r[0]]
    if node == 'infix': return [(r[0] - r[1]) % P]
    if node == 'prefix': return [(-r[0]) % P]
    if node == 'switch': return [r[1] if r[0] != 0 else r[2]]
    if node == 'phi': return list(r)
    return [r[0]]
