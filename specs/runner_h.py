"""Runner harness (C03-X1, C17, C02): the real AnalysisRunner::{analyze_templates/functions, analyze_*,
cache_*, take_*, replace_*, *_reports, template_names/function_names} executed from MIR.

Stubbed: generate_cfg ("emits r CFG-stage reports, then succeeds or fails with one more"), the analysis
passes ("emit one report and may look another definition up through the AnalysisContext"), the
writer (records what it is given), the ASTs (opaque tokens that know their file).

Decided: every finding produced for a definition in a user file is written exactly once, whichever
stage produced it, whether or not another definition looked it up first, for every order in which
the definitions are stored/analysed (=> the written multiset does not depend on the order: C17).
"""
import re, itertools, json
import z3
from mirsym.engine import Harness, explore, Stats, Unsupported
from mirsym.values import *
from mirsym.models import some, none, ok, err
from mirsym.models_coll import MapV, BitSetV, bitset_stubs
from . import common
from .irbuild import IR


def shapes(tier):
    n = 2 if tier == 'quick' else 3
    out = []
    for kind in ('template', 'function'):
        for perm in itertools.permutations(range(n)):
            out.append({'kind': 'runner', 'defkind': kind, 'n': n, 'perm': list(perm)})
    return out


def run_task(pr, task):
    ir = IR(pr)
    n = task['n']; kind = task['defkind']; K = kind.capitalize()
    h = Harness(pr, 'analysis')
    bitset_stubs(h, n)
    R = lambda p, f: h.stub_res.append((re.compile(p), f))
    user = [z3.Bool('user%d' % i) for i in range(n)]
    fails = [z3.Bool('fails%d' % i) for i in range(n)]
    ncfg = [z3.Int('ncfg%d' % i) for i in range(n)]
    look = [z3.Int('look%d' % i) for i in range(n)]          # the pass running on def i looks up def look[i] (n = nothing)
    h.inputs = dict([('user%d' % i, user[i]) for i in range(n)] + [('fails%d' % i, fails[i]) for i in range(n)] +
                    [('ncfg%d' % i, ncfg[i]) for i in range(n)] + [('look%d' % i, look[i]) for i in range(n)])
    base = [z3.And(k >= 0, k <= 2) for k in ncfg] + [z3.And(l >= 0, l <= n) for l in look]
    names = ['d%d' % i for i in range(n)]

    def report(tag):
        return ir.S('Report', category=Enum('MessageCategory', 'Warning'), message=StrV.of(tag), primary_file_ids=VecV([0]), primary=VecV([Opaque('label')]),
                    secondary=VecV([]), notes=VecV([]), code=Enum('ReportCode', 'ShadowingVariable'))

    def idx_of(v):
        v = deref(v)
        while isinstance(v, Ref): v = deref(v)
        return v.data

    def gen_cfg(ex, a, m):
        d = idx_of(a[0]); st = ex.notes['st']
        st['gen'][d] = st['gen'].get(d, 0) + 1
        k = ex.concretize(ncfg[d], 0, 2)
        reps = deref(a[2])
        for j in range(k): reps.items.append(report('cfg%d_%d' % (d, j)))
        if ex.decide(fails[d]): return err(BoxV(report('fail%d' % d)))
        return ok(Opaque('cfg', d))
    R(r'generate_cfg::<.*>', gen_cfg)

    def the_pass(ex, args):
        ctx, cfg = args
        d = deref(cfg).data; st = ex.notes['st']
        st['passes'][d] = st['passes'].get(d, 0) + 1
        l = ex.concretize(look[d], 0, n)
        if l < n:
            f = pr.method('AnalysisContext', 'AnalysisRunner', kind)
            ex.call_mir(f, [ctx, StrV.of(names[l])])
        return VecV([report('pass%d' % d)])
    R(r'get_analysis_passes', lambda ex, a, m: VecV([BoxV(the_pass)]))
    R(r'(?:template_data::)?TemplateData::get_file_id|(?:function_data::)?FunctionData::get_file_id', lambda ex, a, m: idx_of(a[0]))
    R(r'(?:file_definition::)?FileLibrary::is_user_input', lambda ex, a, m: BitSetV(n, user).contains(ex, a[1]))
    h.trait_binds[('W', 'LogWriter', 'write_message')] = lambda ex, a: UNIT

    def write_reports(ex, a):
        reps = deref(a[1]); st = ex.notes['st']
        items = reps.elems() if isinstance(reps, SliceV) else reps.items
        for r in items: st['written'].append(ir.get(r, 'message').concrete())
        return len(items)
    h.trait_binds[('W', 'ReportWriter', 'write_reports')] = write_reports

    def mk(ex):
        ex.notes['st'] = {'written': [], 'gen': {}, 'passes': {}}
        asts = MapV([[StrV.of(names[i]), Opaque('ast', i)] for i in task['perm']])
        empty = lambda: MapV()
        runner = ir.S('AnalysisRunner', curve=Enum('Curve', 'Bn254'), libraries=VecV([]), file_library=Opaque('filelib'),
                      template_asts=asts if kind == 'template' else empty(), function_asts=asts if kind == 'function' else empty(),
                      template_cfgs=empty(), function_cfgs=empty(), template_reports=empty(), function_reports=empty())
        return [Ref([runner], 0), Ref([Struct('HWriter', [])], 0), True]

    def post(ex, res):
        st = ex.notes['st']; w = st['written']
        for d in range(n):
            u = ex.decide(user[d]); f = ex.decide(fails[d]); k = ex.concretize(ncfg[d], 0, 2)
            for j in range(k):
                c = w.count('cfg%d_%d' % (d, j))
                ex.oblige(c == (1 if u else 0), 'report-lost' if c == 0 else 'report-duplicated',
                          'CFG-stage report %d of definition d%d (user file: %s) is written exactly once (written %d times)' % (j, d, u, c), extra={'class': 'cfg-stage'})
            c = w.count('fail%d' % d)
            ex.oblige(c == (1 if (u and f) else 0), 'report-lost' if c == 0 else 'report-duplicated',
                      'the error of the failed lift of d%d is written exactly once (written %d times)' % (d, c), extra={'class': 'failed-lift'})
            c = w.count('pass%d' % d)
            ex.oblige(c == (1 if (u and not f) else 0), 'report-lost' if c == 0 else 'report-duplicated',
                      'the pass report of d%d is written exactly once (written %d times)' % (d, c), extra={'class': 'pass'})

    fn = pr.method(None, 'AnalysisRunner', 'analyze_%ss' % kind)
    stats = Stats()
    st, vs, inc = explore(h, fn, mk, post=post, base=base, stats=stats, seed=common.seed())
    return {'stats': common.pack_stats(stats), 'violations': [common.pack_violation(v) for v in vs]}


def scenario_of(t, v):
    m = v['model']; n = t['n']
    defs = []
    for i in t['perm']:
        defs.append({'id': i, 'user': bool(m.get('user%d' % i)), 'fails': bool(m.get('fails%d' % i)), 'cfg_reports': m.get('ncfg%d' % i, 0),
                     'looks_up': m.get('look%d' % i, n) if m.get('look%d' % i, n) < n else None})
    return {'kind': 'runner', 'defkind': t['defkind'], 'defs': defs}
