"""C13 — see C12.py (path correspondence between the structured source and the produced graph)."""
from . import C12


def run_task(task): return C12.run_task(task)


def main(tier, replay=None): return C12.main(tier, replay, prop='C13')
