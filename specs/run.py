import sys, os, importlib, argparse, traceback
from . import common


def main():
    ap = argparse.ArgumentParser()
    ap.add_argument('prop')
    ap.add_argument('--tier', default=os.environ.get('VERIF_TIER', 'quick'), choices=['quick', 'thorough'])
    ap.add_argument('--replay')
    a = ap.parse_args()
    try:
        mod = importlib.import_module('specs.' + a.prop)
        rc = mod.main(a.tier, a.replay)
    except Exception as e:
        traceback.print_exc()
        print('INCONCLUSIVE property=%s engine error: %s: %s' % (a.prop, type(e).__name__, str(e)[:300]))
        rc = 2
    sys.exit(rc)


main()
