"""C17 — findings are a function of the sources (partial: the analysis runner).

The runner harness of C03 (real AnalysisRunner from MIR; stubbed CFG generation, passes, writer) is run
for EVERY order in which the definitions can be stored / iterated (the hash-map order of
template_asts / function_asts is the harness' choice) and every look-up pattern between definitions:
on each order the written multiset equals the same order-independent oracle (each finding of a
user-file definition exactly once), hence the written multiset is the same for all orders and
does not depend on which definitions looked which others up first.

Added after seed C17_2: the real `main` + writers harness of C03 for pairs of reports with the SAME report code
(and symbolic, possibly equal, label ranges in possibly different files): what is displayed for one
report must not depend on which other report was displayed before it (each report passing the filters
is displayed exactly once), so the displayed multiset does not depend on the order of files / definitions.

Hash-map orders inside a pass: the whole side-effect pass (C09's harness) is run three times per program with
every HashMap / HashSet iterated in insertion, reverse, rotated and pseudo-randomly permuted order; the multiset of claims
must be equal.  All twelve intra-procedural passes of get_analysis_passes (with their real report construction) run likewise on every
straight-line template of <= 3 (4) statements over an input, two intermediate and an output signal.
"""
from . import common, C03


def run_task(task): return C03.run_task(task)


def main(tier, replay=None):
    import specs.C03 as c3
    orig_tasks = c3.tasks
    def tasks17(tier, prop='C17'):
        ts = [dict(k, prop='C17') for k in c3.RUNNER_SHAPES('thorough' if tier == 'thorough' else 'quick')]
        n = 2 if tier == 'quick' else 3
        ts += [{'kind': 'main', 'allow': a, 'sarif': sf, 'codes': [c] * n, 'prop': 'C17'} for a in (0, 1) for sf in (False, True) for c in range(len(c3.CODES))]
        # hash-map iteration orders inside a pass: the side-effect pass under three iteration orders (templates; thorough: functions too)
        from . import C09
        ts += [{'kind': 'orders', 't': dict(t, orders=True), 'prop': 'C17'} for t in C09.tasks(tier) if tier == 'thorough' or (t['dt'] == 'Template' and t['lo'] < 600)]
        # every intra-procedural pass (real report construction) on straight-line templates over input / intermediate / output signals
        ts += [{'kind': 'orders', 't': t, 'prop': 'C17'} for t in C09.tasks_sig(tier)]
        return ts
    c3.tasks = tasks17
    orig_is = c3.is_c02_violation
    try:
        return c3.main(tier, replay, prop='C17')
    finally:
        c3.tasks = orig_tasks
