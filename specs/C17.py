"""C17 — findings are a function of the sources (partial: the analysis runner).

The runner harness of C03 (real AnalysisRunner from MIR; stubbed CFG generation, passes, writer) is run
for EVERY order in which the definitions can be stored / iterated (the hash-map order of
template_asts / function_asts is the harness' choice) and every look-up pattern between definitions:
on each order the written multiset equals the same order-independent oracle (each finding of a
user-file definition exactly once), hence the written multiset is the same for all orders and
does not depend on which definitions looked which others up first.
"""
from . import common, C03


def run_task(task): return C03.run_task(task)


def main(tier, replay=None):
    import specs.C03 as c3
    orig_tasks = c3.tasks
    c3.tasks = lambda tier, prop='C17': [dict(k, prop='C17') for k in c3.RUNNER_SHAPES('thorough' if tier == 'thorough' else 'quick')]
    orig_is = c3.is_c02_violation
    try:
        return c3.main(tier, replay, prop='C17')
    finally:
        c3.tasks = orig_tasks
