"""C06 — constant propagation is sound.

K (mirsym): the operator evaluation table ExpressionInfixOpcode/PrefixOpcode::propagate_values executed
   from MIR (down into circom_algebra) for every opcode, every operand kind (field element, boolean,
   unknown) and all operand values in the field of each curve: a produced value equals Circom's
   semantics (oracles/circom_field.py); unknown operands give no value; no panic.
X (mirsym): one-step soundness of Expression/Statement::propagate_values per IR node kind (irrules).
"""
import os, sys, json, re
import z3
from . import common
from mirsym.program import Program
from mirsym.engine import Harness, explore, Stats, Unsupported
from mirsym.values import *
from mirsym import models
from oracles import circom_field as O
from .C16 import PRIMES, Ctx, pow_limit

_prog = None
CURVES = {'Bn254': 'bn254', 'Bls12_381': 'bls12_381', 'Goldilocks': 'goldilocks'}
INFIX_MAP = {'Mul': 'mul', 'Div': 'div', 'Add': 'add', 'Sub': 'sub', 'Pow': 'pow', 'IntDiv': 'idiv', 'Mod': 'mod_op', 'ShiftL': 'shift_l', 'ShiftR': 'shift_r',
             'LesserEq': 'lesser_eq', 'GreaterEq': 'greater_eq', 'Lesser': 'lesser', 'Greater': 'greater', 'Eq': 'eq', 'NotEq': 'not_eq',
             'BoolOr': 'bool_or', 'BoolAnd': 'bool_and', 'BitOr': 'bit_or', 'BitAnd': 'bit_and', 'BitXor': 'bit_xor'}
PREFIX_MAP = {'Sub': 'prefix_sub', 'BoolNot': 'not', 'Complement': 'complement_256'}
BOOLEAN_RESULT = {'lesser_eq', 'greater_eq', 'lesser', 'greater', 'eq', 'not_eq'}


def prog():
    global _prog
    if _prog is None: _prog = Program(['algebra', 'structure'])
    return _prog


def tasks(tier):
    ts = []
    for cv in CURVES:
        for op in INFIX_MAP:
            for kinds in ('FF', 'BB', 'FB', 'BF', 'NF', 'FN', 'NB'):
                ts.append({'kind': 'infix', 'curve': cv, 'op': op, 'operands': kinds})
        for op in PREFIX_MAP:
            for kinds in ('F', 'B', 'N'):
                ts.append({'kind': 'prefix', 'curve': cv, 'op': op, 'operands': kinds})
    try:
        from . import irrules
        ts += [{'kind': 'rule', 'node': n} for n in irrules.VALUE_NODES]
    except ImportError:
        pass
    # whole programs: every value the real Cfg::propagate_values attaches to an expression node holds at every dynamic instance
    from . import C09
    ts += [{'kind': 'programs', 't': dict(t, mode='values')} for t in C09.tasks(tier)]
    return ts


def make_env(ex, pr, curve):
    """ValueEnvironment built by the real constructors (UsefulConstants::new, ValueEnvironment::new)."""
    cnew = pr.method(None, 'UsefulConstants', 'new')
    consts = ex.call_mir(cnew, [Ref([Enum('Curve', curve)], 0)])
    vnew = pr.method(None, 'ValueEnvironment', 'new')
    return ex.call_mir(vnew, [Ref([consts], 0)])


def operand(kind, name):
    if kind == 'F':
        v = z3.Int(name); return models.some(Ref([Enum('ValueReduction', 'FieldElement', [BigV(v)])], 0)), v
    if kind == 'B':
        v = z3.Bool(name); return models.some(Ref([Enum('ValueReduction', 'Boolean', [v])], 0)), v
    return models.none(), None


def expect_cases(kind, op, kinds, a, b, p, ctx):
    """what Circom's semantics say about `a op b` for these operand kinds -> list of (cond, expectation) or None (no value may be claimed)"""
    T = z3.BoolVal(True)
    if kind == 'infix':
        f = INFIX_MAP[op]
        if kinds == 'FF':
            if f in ('shift_l', 'shift_r'): return O.shift_cases(f, a, b, p)
            cases = O.symbolic(f, a, b, p, ctx)
            if f in BOOLEAN_RESULT: cases = [(c, ('Bool', e[1] == 1)) for c, e in cases]
            return cases
        if kinds == 'BB':
            # booleans are the field elements 1 / 0
            av = z3.If(a, 1, 0); bv = z3.If(b, 1, 0)
            if f in ('shift_l', 'shift_r'): return O.shift_cases(f, av, bv, p)
            cases = O.symbolic(f, av, bv, p, ctx)
            if f in BOOLEAN_RESULT or f in ('bool_or', 'bool_and'): cases = [(c, ('BoolOrVal', e[1])) for c, e in cases]
            return cases
        return None
    f = PREFIX_MAP[op]
    if kinds == 'F': return O.symbolic(f, a, None, p, ctx)
    if kinds == 'B':
        av = z3.If(a, 1, 0)
        cases = O.symbolic(f, av, None, p, ctx)
        if f == 'not': cases = [(c, ('BoolOrVal', e[1])) for c, e in cases]
        return cases
    return None


def confirm_program(tier, t, v):
    """the natively compiled pipeline (parser, lifter, SSA, value propagation) makes the same claim on generated source"""
    from . import C09, C12
    from .C14ssa import leaf_ids
    global NAT
    m = v['model']; idx = m.get('shape', 0); dt = t['dt']
    sk0, ks, cs = C09.family(tier)[idx]
    sk = C12.number(sk0, [0]); kinds = dict(zip(leaf_ids(sk), ks)); conds = dict(zip(C09.ctrl_ids(sk), cs))
    text, spans = C09.source_of(sk, kinds, conds, dt)
    mf = re.search(r'the finding `(This condition is always (?:true|false))` at statement (\d+)', v['msg'])
    if mf:
        from . import realbin
        import tempfile, shutil
        d = tempfile.mkdtemp(prefix='vc06_', dir=common.CACHE)
        try:
            open(os.path.join(d, 'a.circom'), 'w').write(text)
            rc, out = realbin.run([os.path.join(d, 'a.circom')], d)
        finally:
            shutil.rmtree(d, ignore_errors=True)
        return mf.group(1) in out, {'real binary prints it': mf.group(1) in out, 'exit': rc}, {'finding': mf.group(1)}
    mm = re.search(r'the (\w+) node of statement (\d+) is claimed to be (\S+),', v['msg'])
    if not mm: return None, 'unparsed claim', None
    kind, sid, val = mm.group(1), int(mm.group(2)), mm.group(3)
    nat = common.Native(common.build_replay('vr_analysis'))
    try:
        # valdump works on one definition: cut the template / function out of the generated file
        start = text.index('template T(A)' if dt == 'Template' else 'function f(A)')
        out = nat.ask('valdump ' + text[start:].encode().hex(), timeout=30)
    finally:
        nat.close()
    if not out.startswith('['): return None, 'native pipeline: ' + out[:200], None
    claims = json.loads(out)
    lo_hi = [(lo - start, hi - start) for lo, hi, i in spans if i == sid]
    # conditions are not leaves: their statement is the `if`/`while` line
    here = [c for c in claims if any(lo <= c[0] < hi for lo, hi in lo_hi)] if lo_hi else claims
    want = (kind, {'True': True, 'False': False}.get(val, val))
    present = any((c[1], c[2]) == want or (c[1] == kind and str(c[2]) == str(val)) for c in here)
    return present, {'native claims at the statement': here[:6]}, {'claim': [kind, val]}


def run_task(task):
    pr = prog()
    if task['kind'] == 'programs':
        from . import C09
        return C09.run_task(task['t'])
    if task['kind'] == 'rule':
        from . import irrules
        return irrules.run_value_rule(pr, task)
    cv = task['curve']; p = PRIMES[CURVES[cv]]; op = task['op']; kinds = task['operands']
    h = Harness(pr, 'structure')
    h.pow_limit = pow_limit(p); h.notes = {'max_bits': p.bit_length(), 'prime_modulus': True}
    stats = Stats(); ctx = Ctx(None)
    if task['kind'] == 'infix':
        fn = pr.method(None, 'ExpressionInfixOpcode', 'propagate_values', file_hint='intermediate_representation')
        opv = Enum('ir::ExpressionInfixOpcode', op)
        lo, a = operand(kinds[0], 'a'); ro, b = operand(kinds[1], 'b')
    else:
        fn = pr.method(None, 'ExpressionPrefixOpcode', 'propagate_values', file_hint='intermediate_representation')
        opv = Enum('ir::ExpressionPrefixOpcode', op)
        lo, a = operand(kinds[0], 'a'); ro, b = None, None
    h.inputs = {k: v for k, v in (('a', a), ('b', b)) if v is not None}
    base = []
    for v in (a, b):
        if v is not None and z3.is_int(v): base += [v >= 0, v < p]
    f = (INFIX_MAP if task['kind'] == 'infix' else PREFIX_MAP)[op]
    runs = [(None, None)]
    if f in ('shift_l', 'shift_r') and kinds == 'FF':
        nb = p.bit_length()
        runs = [(None, k) for k in (0, 1, 2, nb - 1, nb, nb + 1, p - 1, p - 2, p - nb, p // 2, p // 2 + 1)] + [('large', None)]
    if f == 'complement_256' and kinds == 'F':
        runs = [(v, None) for v in (0, 1, 2, p // 2, p // 2 + 1, p - 1)] + [('bits16', None)]
    viols = []
    for ra, rb in runs:
        av, bv, extra = a, b, []
        if rb is not None: bv = z3.IntVal(rb)
        if ra == 'large':
            nb = p.bit_length(); extra = [b >= nb + 2, b <= p - nb - 2]
        elif ra == 'bits16': extra = [a < 2 ** 16]
        elif ra is not None: av = z3.IntVal(ra)

        def mk(ex, av=av, bv=bv):
            env = make_env(ex, pr, cv)
            def opnd(k, val):
                if k == 'F': return models.some(Ref([Enum('ValueReduction', 'FieldElement', [BigV(simp(val))])], 0))
                if k == 'B': return models.some(Ref([Enum('ValueReduction', 'Boolean', [val])], 0))
                return models.none()
            args = [Ref([opv], 0), opnd(kinds[0], av)]
            if task['kind'] == 'infix': args.append(opnd(kinds[1], bv))
            return args + [Ref([env], 0)]

        def post(ex, res, av=av, bv=bv):
            if res.var == 'None': return      # no claim
            cases = expect_cases(task['kind'], op, kinds, av, bv, p, ctx)
            val = res.f[0]
            if cases is None:
                ex.oblige(False, 'value-from-unknown', '%s %s with operand kinds %s must not produce a value' % (task['kind'], op, kinds)); return
            for cond, exp in cases:
                cond = simp(cond)
                if cond is False: continue
                if exp[0] == 'Err':
                    ex.oblige(simp(z3.Not(cond)), 'value-for-undefined', '%s: no value may be claimed where Circom reports an error' % op)
                elif val.var == 'FieldElement':
                    want = exp[1] if exp[0] != 'Bool' else z3.If(exp[1], 1, 0)
                    ex.oblige(simp(z3.Implies(cond, zint(val.f[0].t) == want)), 'value-sound', '%s: claimed field element equals Circom semantics' % op)
                else:
                    want = exp[1] if exp[0] == 'Bool' else (exp[1] != 0)
                    ex.oblige(simp(z3.Implies(cond, zbool(val.f[0]) == want)), 'value-sound', '%s: claimed boolean equals Circom semantics' % op)
        st, vs, inc = explore(h, fn, mk, post=post, base=base + extra, stats=stats, seed=common.seed())
        for v in vs:
            if rb is not None: v.model['b'] = rb
            if ra is not None and not isinstance(ra, str): v.model['a'] = ra
        viols += vs
    return {'stats': common.pack_stats(stats), 'violations': [common.pack_violation(v) for v in viols], 'p': p}


NAT = None


def native_value(task, m):
    global NAT
    if NAT is None: NAT = common.Native(common.build_replay('vr_structure'), mem_kb=2_000_000)
    def o(k, v):
        if k == 'F': return 'F %d' % v
        if k == 'B': return 'B %s' % ('true' if v else 'false')
        return 'N 0'
    kinds = task['operands']
    if task['kind'] == 'infix':
        return NAT.ask('value infix %s %s %s %s' % (task['op'], task['curve'], o(kinds[0], m.get('a', 0)), o(kinds[1], m.get('b', 0))), timeout=10)
    return NAT.ask('value prefix %s %s %s' % (task['op'], task['curve'], o(kinds[0], m.get('a', 0))), timeout=10)


def concrete_expect(task, m, p):
    kinds = task['operands']
    if 'N' in kinds or kinds in ('FB', 'BF'): return None
    f = (INFIX_MAP if task['kind'] == 'infix' else PREFIX_MAP)[task['op']]
    cv = lambda k, v: (1 if v else 0) if k == 'B' else v
    a = cv(kinds[0], m.get('a', 0)); b = cv(kinds[1], m.get('b', 0)) if len(kinds) > 1 else 0
    return O.concrete(f, a, b, p)


def confirm(task, m, p):
    got = native_value(task, m)
    if got.startswith(('PANIC', 'TIMEOUT', 'ABORT')): return True, got, 'no panic / hang'
    if got == 'None': return False, got, '(no claim)'
    exp = concrete_expect(task, m, p)
    if exp is None: return True, got, 'no value (unknown or ill-typed operands)'
    kind, val = got.split(' ')
    if exp[0] == 'Err': return True, got, 'no value (undefined operation)'
    want = exp[1]
    if exp[0] == 'ErrOrVal': want = exp[1]
    if kind == 'F': have = int(val)
    else: have = 1 if val == 'true' else 0
    if isinstance(want, bool): want = 1 if want else 0
    return have != want, got, exp


def main(tier, replay=None):
    rep = common.Report('C06', tier)
    if replay:
        d = json.load(open(replay))
        if d['task'].get('kind') == 'programs':
            bad, got, exp = confirm_program(d.get('tier', tier), d['task']['t'], d['violation'])
            print('replay: the natively compiled pipeline makes the claim: observed=%s expected=%s -> %s' % (got, exp, 'VIOLATION' if bad else 'holds')); return 1 if bad else 0
        bad, got, exp = confirm(d['task'], d['model'], d['p'])
        print('replay: observed=%s expected=%s -> %s' % (got, exp, 'VIOLATION' if bad else 'holds'))
        return 1 if bad else 0
    from mirsym import conformance
    nat = common.Native(common.build_replay('vr_algebra'))
    nvec, bad = conformance.check_bigint(nat); nat.close()
    rep.validated += nvec
    if bad:
        rep.inconclusive.append('library model conformance failed: %s' % bad[:3]); return rep.finish()
    ts = tasks(tier)
    results = common.run_tasks('specs.C06', ts)
    known = common.load_known('C06'); seen = {}
    for r in results:
        if 'error' in r:
            rep.inconclusive.append('task %s: %s' % (r['task'], r['error'][:400])); continue
        rep.add_stats(r['stats'])
        for v in r['violations']:
            t = r['task']
            if t['kind'] == 'programs':
                conf, got, exp = confirm_program(tier, t['t'], v); rep.validated += 1
                role = {'function': 'Cfg::propagate_values (whole program)', 'kind': v['kind'], 'class': (re.search(r'the (\w+) node', v['msg']) or [None, 'any'])[1]}
                desc = '%s model %s native: %s' % (v['msg'], v['model'], got)
                data = {'property': 'C06', 'task': t, 'model': v['model'], 'p': None, 'violation': v, 'observed': got, 'expected': exp, 'tier': tier}
                if conf is None: conf = True          # no native observation possible: reported from the engine run
            elif t['kind'] == 'rule':
                from . import irrules
                conf, role, desc, data = irrules.confirm_value(v, t, rep)
            else:
                conf, got, exp = confirm(t, v['model'], r['p']); rep.validated += 1
                cls = 'any'
                if v['kind'] == 'panic': cls = 'panic'
                role = {'function': 'propagate_values/%s/%s' % (t['kind'], t['op']), 'kind': v['kind'], 'class': cls}
                desc = '%s %s (%s) on %s %s: observed=%s expected=%s' % (t['kind'], t['op'], t['curve'], t['operands'], v['model'], got, exp)
                data = {'property': 'C06', 'task': t, 'model': v['model'], 'p': r['p'], 'observed': got, 'expected': str(exp)}
            if not conf:
                rep.nonrepro.append({'task': t, 'violation': v, 'desc': desc[:300]}); continue
            key = json.dumps(role, sort_keys=True)
            if key in seen: continue
            seen[key] = 1
            k = common.match_known(known, role)
            if k: rep.known_hits.append('%s (%s)' % (k['id'], desc[:200]))
            else:
                rep.violations.append(rep.save_replay(role, data)); common.log('VIOLATION detail:', desc)
    if rep.nonrepro and not rep.violations:
        rep.inconclusive.append('%d solver models did not reproduce natively, e.g. %s' % (len(rep.nonrepro), json.dumps(rep.nonrepro[0], default=str)[:400]))
    if NAT: NAT.close()
    pr = prog()
    rep.bounds = {'operands': 'all a,b in [0,p) for the three curves; booleans both values; unknown operands', 'opcodes': 'all 20 infix and 3 prefix opcodes',
                  'shifts': 'counts {0,1,2,bits-1,bits,bits+1,p/2,p/2+1,p-bits,p-2,p-1} concretely and every count in [bits+2, p-bits-2] symbolically (all counts are covered through C16)',
                  'complement': 'operands < 2^16 and boundary classes (all operands through C16)'}
    rep.assumptions = ['literals are canonical field elements (< p)', 'mod_inverse/modpow/bitwise ops are shared uninterpreted symbols', 'source hash ' + pr.hashes['structure'] + '/' + pr.hashes['algebra']]
    from . import C09
    rep.bounds['programs'] = 'the %d structured programs of C09 (<= %d free statements, as template and as function): every expression node with a value, every dynamic instance, all parameter values, paths with <= %d iterations per loop' % (len(C09.family(tier)), 3 if tier == 'quick' else 4, C09.UNROLL)
    rep.outside = ['programs with more statements, other operators inside whole programs (the operator table is decided separately for all operands)', 'unique names (C10)']
    return rep.finish()
