"""C08 — every `<--` signal assignment is reported exactly once.

Engine: mirsym over the MIR of signal_assignments::find_signal_assignments (whole pass) on a harness-built
CFG of <= 3 IR statements whose kinds are symbolic (`s <-- e`, `s <== e`, `e === e'`, `x = e`), assigned
signal and expression shape symbolic, degree knowledge of the right-hand side symbolic (unknown / any
range), definition type symbolic.  Variable-use caches are filled by the real cache_variable_use.

Decided: #findings == #`<--` statements (none for functions / custom templates); each finding is anchored
at its statement and names the assigned signal; it is `unnecessary signal assignment` iff the rhs degree
is known and at most quadratic, otherwise `signal assignment` whose secondary locations are exactly the
constraint statements that mention the assigned signal.
"""
import re, json, os, tempfile, shutil
import z3
from . import common
from mirsym.program import Program
from mirsym.engine import Harness, explore, Stats, Unsupported
from mirsym.values import *
from mirsym.models import some, none
from .irbuild import IR

_prog = None
SHAPES = 7      # 0 number, 1 s0, 2 s1, 3 s0 + s1, 4 s0 * s1 * s1, 5 a[0], 6 a[1] * s0
READS = {0: set(), 1: {0}, 2: {1}, 3: {0, 1}, 4: {0, 1}, 5: {2}, 6: {3, 0}}      # targets: 0 s0, 1 s1, 2 a[0], 3 a[1]
NTGT = 4


def prog():
    global _prog
    if _prog is None: _prog = Program(['algebra', 'structure', 'analysis'])
    return _prog


def tasks(tier):
    n = 2          # three-statement programs did not finish within an hour on 16 cores (measured); thorough widens the two-statement families instead
    ts = []
    # two families: scalar signals (targets s0, s1; shapes over s0, s1) and array elements (targets s0, a[0], a[1]; shapes reading a[..])
    for fam, tg, sh in (('scalar', [0, 1], [0, 1, 2, 3, 4]), ('array', [0, 2, 3], [0, 4, 5, 6])):
        for nn in range(1, n + 1):
            for k0 in range(4):
                if tier == 'quick' and fam == 'array' and nn == n and k0 != 0: continue      # quick: the longest array programs start with the `<--`
                if nn == 1: ts.append({'n': nn, 'k0': k0, 'family': fam, 'tgts': tg, 'shapes': sh})
                else: ts += [{'n': nn, 'k0': k0, 'family': fam, 'tgts': tg, 'shapes': sh, 't0': t0, 's0': s0} for t0 in tg for s0 in sh]
    return ts


def run_task(task):
    pr = prog(); ir = IR(pr); n = task['n']
    h = Harness(pr, 'analysis')
    h.step_budget = 1_500_000
    kind = [z3.Int('kind%d' % i) for i in range(n)]; tgt = [z3.Int('tgt%d' % i) for i in range(n)]; shp = [z3.Int('shape%d' % i) for i in range(n)]
    dk = [z3.Bool('degknown%d' % i) for i in range(n)]; hi = [z3.Int('deghi%d' % i) for i in range(n)]; dt = z3.Int('deftype')
    h.inputs = dict([(v.decl().name(), v) for v in kind + tgt + shp + dk + hi] + [('deftype', dt)])
    dvs = pr.defs.enum_variants('DefinitionType')
    base = [z3.And(k >= 0, k <= 3) for k in kind] + [z3.And(t >= 0, t < NTGT) for t in tgt] + [z3.And(s >= 0, s < SHAPES) for s in shp] + [z3.And(x >= 0, x <= 3) for x in hi] + [dt >= 0, dt < len(dvs)]
    base.append(kind[0] == task['k0'])
    if 't0' in task: base += [tgt[0] == task['t0'], shp[0] == task['s0']]
    base += [z3.Or(*[t == x for x in task.get('tgts', [0, 1])]) for t in tgt] + [z3.Or(*[sv == x for x in task.get('shapes', [0, 1, 2, 3, 4])]) for sv in shp]
    sig = lambda: ir.vtype('signal', 'Input')
    def S(i, loc):
        if i < 2: return ir.variable('s%d' % i, meta=ir.meta(loc, loc + 2, vtype=sig()))
        return ir.access('a', [ir.array_access(ir.number(i - 2))], meta=ir.meta(loc, loc + 2, vtype=sig()))
    tname = lambda i: 's%d' % i if i < 2 else 'a'


    def expr(shape, loc, degree):
        m = lambda: ir.meta(loc, loc + 5, degree=degree)
        if shape == 0:
            e = ir.number(3, meta=m())
        elif shape == 1: e = ir.variable('s0', meta=ir.meta(loc, loc + 5, vtype=sig(), degree=degree))
        elif shape == 2: e = ir.variable('s1', meta=ir.meta(loc, loc + 5, vtype=sig(), degree=degree))
        elif shape == 3: e = ir.infix('Add', S(0, loc), S(1, loc + 3), meta=m())
        elif shape == 4: e = ir.infix('Mul', S(0, loc), ir.infix('Mul', S(1, loc + 2), S(1, loc + 4)), meta=m())
        elif shape == 5: e = ir.access('a', [ir.array_access(ir.number(0))], meta=ir.meta(loc, loc + 5, vtype=sig(), degree=degree))
        else: e = ir.infix('Mul', S(3, loc), S(0, loc + 3), meta=m())
        return e

    captured = {}

    def cap(kindname):
        def f(ex, a, m):
            ex.notes['reports'].append((kindname, a[0])); return Opaque('report', kindname)
        return f
    h.stub_res.append((re.compile(r'(?:signal_assignments::)?SignalAssignmentWarning::into_report'), cap('CS0005')))
    h.stub_res.append((re.compile(r'(?:signal_assignments::)?UnecessarySignalAssignmentWarning::into_report'), cap('CS0013')))
    cache = pr.method('VariableMeta', 'Statement', 'cache_variable_use', file_hint='intermediate_representation')
    fn = pr.find('find_signal_assignments', crate='analysis')
    stats = Stats()

    def mk(ex):
        ks = [ex.concretize(k, 0, 3) for k in kind]; ts_ = [ex.concretize(t, 0, NTGT - 1) for t in tgt]; ss = [ex.concretize(s, 0, SHAPES - 1) for s in shp]
        kn = [ex.decide(d) for d in dk]
        ex.notes.update(ks=ks, ts=ts_, ss=ss, kn=kn, reports=[])
        stmts = []
        for i in range(n):
            loc = 100 * (i + 1)
            degree = ir.drange(0, hi[i]) if kn[i] else None
            e = expr(ss[i], loc + 20, degree)
            if ks[i] in (0, 1) and ts_[i] >= 2:
                e = ir.update('a', [ir.array_access(ir.number(ts_[i] - 2))], e, meta=ir.meta(loc + 20, loc + 25, vtype=sig(), degree=degree))
            if ks[i] == 0: st = ir.subst(tname(ts_[i]), 'AssignSignal', e, meta=ir.meta(loc, loc + 40, vtype=sig()))
            elif ks[i] == 1: st = ir.subst(tname(ts_[i]), 'AssignConstraintSignal', e, meta=ir.meta(loc, loc + 40, vtype=sig()))
            elif ks[i] == 2: st = ir.constraint_eq(S(ts_[i], loc + 1), e, meta=ir.meta(loc, loc + 40))
            else: st = ir.subst(ir.name('x', version=i), 'AssignLocalOrComponent', e, meta=ir.meta(loc, loc + 40, vtype=ir.vtype('local')))
            cell = [st]
            ex.call_mir(cache, [Ref(cell, 0)])
            stmts.append(cell[0])
        cfg = ir.cfg(ex, 'T', 'Bn254', [ir.block(0, stmts)], def_type=Enum('DefinitionType', dt))
        return [Ref([cfg], 0)]

    def post(ex, res):
        ks, ts_, ss, kn = ex.notes['ks'], ex.notes['ts'], ex.notes['ss'], ex.notes['kn']
        reps = ex.notes['reports']
        nret = len(deref(res).items)
        tmpl = [d for nm, d, _ in dvs if nm == 'Template'][0]
        is_tmpl = ex.decide(dt == tmpl)
        arrows = [i for i in range(n) if ks[i] == 0]
        want_n = len(arrows) if is_tmpl else 0
        ex.oblige(nret == want_n and len(reps) == want_n, 'count', 'one finding per `<--` statement, none for functions/custom templates (%d `<--`, %d findings)' % (len(arrows), nret),
                  extra={'ks': ks, 'ts': ts_, 'ss': ss})
        if not is_tmpl: return
        for i in arrows:
            loc = 100 * (i + 1)
            mine = [(k, w) for k, w in reps if simp(eq(ir.get(ir.get(w, 'assignment_meta'), 'location').f[0], loc)) is True]
            ex.oblige(len(mine) == 1, 'anchor', 'exactly one finding is anchored at `<--` statement %d' % i, extra={'ks': ks, 'ts': ts_, 'ss': ss})
            if len(mine) != 1: continue
            k, w = mine[0]
            ex.oblige(ir.get(ir.get(w, 'signal'), 'name').concrete() == tname(ts_[i]) and len(ir.get(w, 'access').items) == (1 if ts_[i] >= 2 else 0), 'anchor', 'the finding names the assigned signal (with its index)')
            quad = z3.And(hi[i] <= 2) if kn[i] else z3.BoolVal(False)
            ex.oblige(simp(eq(k == 'CS0013', quad)), 'classification', 'statement %d: `unnecessary` iff the rhs degree is known and at most quadratic' % i)
            if k == 'CS0005':
                got = sorted(simp(ir.get(m_, 'location').f[0]) for m_ in ir.get(w, 'constraint_metas').items)
                must = sorted(100 * (j + 1) for j in range(n) if (ks[j] == 2 and (ts_[i] in READS[ss[j]] or ts_[j] == ts_[i])) or (ks[j] == 1 and ts_[i] in READS[ss[j]]))
                may = sorted(100 * (j + 1) for j in range(n) if ks[j] == 1 and ts_[j] == ts_[i])
                ok_ = all(x in got for x in must) and all(x in must or x in may for x in got) and len(set(got)) == len(got)
                ex.oblige(ok_, 'secondary', 'statement %d: secondary locations are exactly the constraints mentioning target %d (got %s, expected %s)' % (i, ts_[i], got, must),
                          extra={'ks': ks, 'ts': ts_, 'ss': ss})
    st, vs, inc = explore(h, fn, mk, post=post, base=base, stats=stats, seed=common.seed())
    return {'stats': common.pack_stats(stats), 'violations': [common.pack_violation(v) for v in vs]}


# ----------------------------------------------------------------------------- replay through the real pipeline
EXPR_SRC = {0: '3', 1: 's0', 2: 's1', 3: 's0 + s1', 4: 's0 * s1 * s1', 5: 'a[0]', 6: 'a[1] * s0'}
EXPR_DEG = {0: 0, 1: 1, 2: 1, 3: 1, 4: 3, 5: 1, 6: 2}
TSRC = {0: 's0', 1: 's1', 2: 'a[0]', 3: 'a[1]'}
NAT = None


def confirm(v, n):
    global NAT
    m = v['model']
    ks = [m.get('kind%d' % i, 0) for i in range(n)]; ts_ = [m.get('tgt%d' % i, 0) for i in range(n)]; ss = [m.get('shape%d' % i, 0) for i in range(n)]
    pr = prog(); dts = {d: nm for nm, d, _ in pr.defs.enum_variants('DefinitionType')}
    dtn = dts.get(m.get('deftype', 0), 'Template')
    if dtn == 'Function': return None, 'signals cannot be assigned in a function in real Circom source', None
    lines = []; spans = []
    head = 'pragma circom 2.0.0;\ntemplate %sT() {\n    signal input s0;\n    signal input s1;\n    signal output a[2];\n' % ('custom ' if dtn == 'CustomTemplate' else '')
    body = head
    for i in range(n):
        e = EXPR_SRC[ss[i]]
        if ks[i] == 0: line = '%s <-- %s;' % (TSRC[ts_[i]], e)
        elif ks[i] == 1: line = '%s <== %s;' % (TSRC[ts_[i]], e)
        elif ks[i] == 2: line = '%s === %s;' % (TSRC[ts_[i]], e)
        else: line = 'var x%d = %s;' % (i, e)
        body += '    '; start = len(body.encode()); body += line; spans.append((start, start + len(line) - 1)); body += '\n'
    body += '}\n'
    d = tempfile.mkdtemp(prefix='vc08_', dir=common.CACHE)
    try:
        path = os.path.join(d, 'a.circom'); open(path, 'w').write(body)
        if NAT is None: NAT = common.Native(common.build_replay('vr_analysis'))
        out = NAT.ask('analyzefile bn254 ' + path, timeout=30)
    finally:
        shutil.rmtree(d, ignore_errors=True)
    if not out.startswith('OK'): return True, out, 'a normal run'
    toks = [t.split(':') for t in out.split()[1:]]
    mine = [t for t in toks if t[0] in ('CS0005', 'CS0013')]
    exp = []
    for i in range(n):
        if ks[i] != 0 or dtn != 'Template': continue
        rid = 'CS0013' if EXPR_DEG[ss[i]] <= 2 else 'CS0005'
        nsec = 0
        if rid == 'CS0005':
            nsec = sum(1 for j in range(n) if (ks[j] == 2 and (ts_[i] in READS[ss[j]] or ts_[j] == ts_[i])) or (ks[j] == 1 and ts_[i] in READS[ss[j]]))
        exp.append((rid, spans[i][0], nsec))
    got = sorted((t[0], int(t[2].split('-')[0]), int(t[3])) for t in mine)
    # a `<==` to the same signal may or may not be counted as mentioning it: compare anchors and ids strictly, secondary counts leniently
    strict_exp = sorted((r, s) for r, s, _ in exp); strict_got = sorted((r, s) for r, s, _ in got)
    bad = strict_exp != strict_got
    if not bad:
        for (r, s, k) in exp:
            g = [x for x in got if x[0] == r and x[1] == s][0]
            may = sum(1 for j in range(n) if ks[j] == 1)
            if r == 'CS0005' and not (k <= g[2] <= k + may): bad = True
    return bad, got, sorted(exp)


def main(tier, replay=None):
    rep = common.Report('C08', tier)
    if replay:
        d = json.load(open(replay)); bad, got, exp = confirm(d['violation'], d['n'])
        print('replay: observed=%s expected=%s -> %s' % (got, exp, 'VIOLATION' if bad else 'holds')); return 1 if bad else 0
    # translator validation: fixed programs through the real pipeline vs. the oracle
    for mdl, n in (({'kind0': 0, 'tgt0': 0, 'shape0': 4, 'kind1': 2, 'tgt1': 0, 'shape1': 2}, 2), ({'kind0': 0, 'tgt0': 1, 'shape0': 1, 'kind1': 0, 'tgt1': 0, 'shape1': 4}, 2),
                   ({'kind0': 1, 'tgt0': 0, 'shape0': 3, 'kind1': 0, 'tgt1': 1, 'shape1': 4, 'kind2': 2, 'tgt2': 1, 'shape2': 0}, 3)):
        pr = prog(); mdl = dict(mdl, deftype=[d for nm, d, _ in pr.defs.enum_variants('DefinitionType') if nm == 'Template'][0])
        bad, got, exp = confirm({'model': mdl}, n); rep.validated += 1
        if bad: rep.inconclusive.append('fixed program %s: real pipeline %s, oracle %s' % (mdl, got, exp))
    ts = tasks(tier)
    results = common.run_tasks('specs.C08', ts)
    known = common.load_known('C08'); seen = {}
    for r in results:
        if 'error' in r:
            rep.inconclusive.append('task %s: %s' % (r['task'], r['error'][:500])); continue
        rep.add_stats(r['stats'])
        for v in r['violations']:
            bad, got, exp = confirm(v, r['task']['n']); rep.validated += 1
            role = {'function': 'find_signal_assignments', 'kind': v['kind'], 'class': 'any'}
            if bad is False:
                rep.nonrepro.append({'task': r['task'], 'violation': v, 'observed': got, 'expected': exp}); continue
            key = json.dumps(role, sort_keys=True)
            if key in seen: continue
            seen[key] = 1
            k = common.match_known(known, role)
            desc = '%s model %s observed=%s expected=%s' % (v['msg'], v['model'], got, exp)
            if k: rep.known_hits.append('%s (%s)' % (k['id'], desc[:200]))
            else:
                rep.violations.append(rep.save_replay(role, {'property': 'C08', 'n': r['task']['n'], 'violation': v, 'observed': got, 'expected': exp, 'native_replay': bad is True}))
                common.log('VIOLATION detail:', desc)
    if rep.nonrepro and not rep.violations:
        rep.inconclusive.append('%d solver models did not reproduce natively, e.g. %s' % (len(rep.nonrepro), json.dumps(rep.nonrepro[0], default=str)[:400]))
    if NAT: NAT.close()
    pr = prog()
    rep.bounds = {'statements': '1..%d per template, kinds {<--, <==, ===, local =} symbolic; scalar family: 2 signals, 5 expression shapes; array family: s0 and the elements a[0], a[1] as targets, 4 shapes reading them; rhs degree knowledge unknown or any range, all definition types' % 2}
    rep.stubs = ['SignalAssignmentWarning::into_report / UnecessarySignalAssignmentWarning::into_report (argument captured)']
    rep.assumptions = ['HashSet<Assignment>/HashSet<Constraint> modelled as association lists (insertion order)', 'source hash ' + pr.hashes['analysis']]
    rep.outside = ['desugaring of tuple / anonymous-component forms and IR lifting (the statements are built in IR form)', 'component-port targets, array elements with non-constant indices', 'more than %d statements' % 2]
    return rep.finish()
