"""C09 — `value never read` / `no side effect` / `unused parameter` claims are true (partial).

Engine: mirsym over the MIR of the real pipeline from the basic blocks on:
  build_basic_blocks, DominatorTree::new, propagate_types / cache_variable_use, the SSA conversion
  (Environment::new, insert_phi_statements::<Config>, insert_ssa_variables::<Config>, update_declarations),
  Cfg::{propagate_types, propagate_values, cache_variable_use}, and then the whole
  side_effect_analysis::run_side_effect_analysis with run_taint_analysis, run_constraint_analysis and
  Cfg::{get_true_branch, get_false_branch, get_interval, get_successors, get_predecessors, get_dominance_frontier}.
Input family: every structured program (if / if-else / while; braced non-empty bodies) with <= N free
statements between the fixed prefix `B = 0; C = 0;` and the fixed final statement (`s <== C` in a template,
`return C` in a function), leaves from KINDS, every condition `v < 3` for v in {A, B, C}; A is the
parameter, B and C locals, s an output signal.  The program index is a solver variable.

Decided, for every claim the real pass makes about a local or a parameter (CS0006 `value never read`,
`no side effect`, `parameter never used`): a product of two symbolic executions of the source program under
the Circom reference semantics (field arithmetic for the curve prime, signed comparison), the second one
with the value assigned by the flagged statement replaced by a FRESH symbolic value at every dynamic
instance (for a parameter: a fresh initial value); inputs and replacement values are solver variables.
The solver must show, for every effect the property lists - value assigned to the output signal (and thus
its constraint), truth of an assertion, return value, branch decision - that it is equal in both runs on
every path with <= U loop iterations per loop.  A model is a concrete input + replacement value for which
the tool's claim is false; it is replayed by a concrete interpreter and the claim itself is re-obtained
from the natively compiled pipeline on generated source.
"""
import re, json, itertools, os, tempfile, shutil
import z3
from . import common
from mirsym.program import Program
from mirsym.engine import Harness, explore, Stats, Unsupported
from mirsym.values import *
from mirsym.models import some, none, ok, err
from mirsym.models_coll import MapV, SetV
from .irbuild import IR
from . import C12
from .C14ssa import _bad, _nleaves, _nctrl, leaf_ids

_prog = None
P = 21888242871839275222246405745257275088548364400416034343698204186575808495617
KINDS = ['B=A', 'B=1', 'B=B+1', 'C=B', 'C=1', 'C=C+B', 'A=B', 'assertB', 's===B', 'C=g(B)', 'D[0]=A', 'D[1]=B', 'D[B]=1', 'C=D[0]', 'C=D[B]']
SMALL = ['B=A', 'C=B', 'D[0]=A', 'D[1]=B', 'D[B]=1', 'C=D[0]']
PREFIX = ('B=0', 'C=0', 'D[0]=0', 'D[1]=0')
CONDV = ['A', 'B', 'C']
UNROLL = 3


def prog():
    global _prog
    if _prog is None: _prog = Program(['algebra', 'structure', 'analysis'])
    return _prog


# ----------------------------------------------------------------------------- program family
def ctrl_ids(sk, out=None):
    out = [] if out is None else out
    k = sk[0]
    if k == 'leaf': pass
    elif k == 'block':
        for s in sk[1]: ctrl_ids(s, out)
    elif k == 'ifelse': out.append(sk[1]); ctrl_ids(sk[2], out); ctrl_ids(sk[3], out)
    else: out.append(sk[1]); ctrl_ids(sk[2], out)
    return out


_FAM = {}


def family(tier):
    """list of (skeleton incl. prefix and final leaves, leaf kinds in source order, condition variables in source order)"""
    if tier in _FAM: return _FAM[tier]
    out = []
    nmax = 3
    for sk in C12.all_skeletons(nmax if tier == 'quick' else 4, False):
        if _bad(sk): continue
        nl, nc = _nleaves(sk), _nctrl(sk)
        if tier == 'quick':
            alpha = KINDS if nl + nc <= 2 else SMALL
            conds = CONDV if nl + nc <= 2 else ['A', 'B']
        else:
            alpha = KINDS if nl + nc <= 3 else ['B=A', 'B=B+1', 'C=B', 'D[B]=1', 'C=D[0]']
            conds = CONDV if nl + nc <= 3 else ['A', 'B']
        full = ('block', tuple(('leaf', False) for _ in PREFIX) + tuple(sk[1]) + (('leaf', False),))
        for ks in itertools.product(alpha, repeat=nl):
            for cs in itertools.product(conds, repeat=nc):
                out.append((full, PREFIX + ks + ('final',), cs))
    _FAM[tier] = out
    return out


KINDS_DEG = ['B=t', 'B=B*t', 'B=B+t', 'C=B*B', 'C=C+B', 'C=B', 'B=1', 'C=C*t']
PREFIX_DEG = ('B=0', 'C=0')


def family_deg(tier):
    """programs over an input signal t for the degree claims (C07): conditions on the parameter only"""
    key = ('deg', tier)
    if key in _FAM: return _FAM[key]
    out = []
    for sk in C12.all_skeletons(3 if tier == 'quick' else 4, False):
        if _bad(sk): continue
        nl, nc = _nleaves(sk), _nctrl(sk)
        alpha = KINDS_DEG if nl + nc <= 3 else ['B=t', 'B=B*t', 'C=B*B', 'C=C+B']
        full = ('block', tuple(('leaf', False) for _ in PREFIX_DEG) + tuple(sk[1]) + (('leaf', False),))
        for ks in itertools.product(alpha, repeat=nl):
            out.append((full, PREFIX_DEG + ks + ('final',), ('A',) * nc))
    _FAM[key] = out
    return out


KINDS_SIG = ['b<==a*a', 'c<==a+1', 'd<==b*c', 'd<==b+c', 'b<--a', 'c<--b', 'b===c', 'c===a', 'd<==b', 'd<==c', 'c<==b*a']
PASSES = ['find_bitwise_complement', 'find_signal_assignments', 'run_complexity_analysis', 'run_side_effect_analysis', 'find_field_element_arithmetic', 'find_field_element_comparisons',
          'find_unconstrained_division', 'find_bn254_specific_circuits', 'find_unconstrained_less_than', 'find_constant_conditional_statement', 'find_under_constrained_signals',
          'find_nonstrict_binary_conversion']


def family_sig(tier):
    """straight-line templates over an input signal a, intermediate signals b, c and an output signal d (C17: every intra-procedural
    pass under several hash iteration orders)"""
    key = ('sig', tier)
    if key in _FAM: return _FAM[key]
    out = []
    small = ['b<==a*a', 'c<==a+1', 'd<==b*c', 'b<--a', 'b===c', 'd<==b']
    for n in range(1, (3 if tier == 'quick' else 4) + 1):
        alpha = KINDS_SIG if n <= (2 if tier == 'quick' else 3) else small
        for ks in itertools.product(alpha, repeat=n):
            out.append((('block', tuple(('leaf', False) for _ in range(n))), ks, ()))
    _FAM[key] = out
    return out


def tasks_sig(tier):
    n = len(family_sig(tier)); chunk = max(1, (n + 127) // 128)
    return [{'lo': i, 'hi': min(n, i + chunk), 'tier': tier, 'dt': 'Template', 'mode': 'passes'} for i in range(0, n, chunk)]


def tasks_deg(tier):
    n = len(family_deg(tier)); chunk = max(1, (n + 127) // 128)
    return [{'lo': i, 'hi': min(n, i + chunk), 'tier': tier, 'dt': 'Template', 'mode': 'degrees'} for i in range(0, n, chunk)]


def tasks(tier):
    n = len(family(tier)); chunk = max(1, (n + 127) // 128)
    ts = []
    for dt in ('Template', 'Function'):
        ts += [{'lo': i, 'hi': min(n, i + chunk), 'tier': tier, 'dt': dt} for i in range(0, n, chunk)]
    # programs with a constraint are templates only: run_task skips them for functions
    return ts


# ----------------------------------------------------------------------------- reference semantics (product run)
def fadd(a, b):
    s = a + b
    return z3.If(s >= P, s - P, s) if (is_sym(a) or is_sym(b)) else (a + b) % P


def fval(x):
    return z3.If(x > P // 2, x - P, x) if is_sym(x) else (x - P if x > P // 2 else x)


def lt3(x):
    v = fval(x)
    return v < 3


class Stop(Exception): pass


def product_obligations(sk, kinds, conds, dt, flagged, slv_timeout=20000):
    """-> list of (pc, equal, text): effects that must be equal in the two runs; the flagged statement id (or 'param') is perturbed in run 2.
    Paths are enumerated with a private solver; loops are unrolled at most UNROLL times."""
    A0 = z3.Int('A0'); inputs = {'A0': A0}
    base = [A0 >= 0, A0 < P]
    fresh = [0]

    def newval(tag):
        fresh[0] += 1
        v = z3.Int('%s_%d' % (tag, fresh[0])); inputs[str(v)] = v; base.append(z3.And(v >= 0, v < P)); return v
    st1 = {'A': A0, 'B': 0, 'C': 0, 'D': [0, 0]}
    st2 = {'A': newval('Aalt') if flagged == 'param' else A0, 'B': 0, 'C': 0, 'D': [0, 0]}
    obls = []
    slv = z3.Solver(); slv.set('timeout', slv_timeout)
    slv.add(*base)

    def feasible(c):
        slv.push(); slv.add(c); r = slv.check(); slv.pop()
        if r == z3.unknown: raise Unsupported('reference run: solver returned unknown')
        return r == z3.sat

    def leaf(i, k, pc, s1, s2):
        def assign(v, e1, e2):
            s1[v] = e1
            s2[v] = newval('repl%d' % i) if flagged == i else e2
        def inb(x):          # executions that index the two-element array out of bounds are outside the model
            v = fval(x); c = z3.And(v >= 0, v <= 1) if is_sym(v) else (0 <= v <= 1)
            if c is False: raise Stop()
            if c is not True: pc.append(c)
        def awrite(idx1, idx2, e1, e2):
            if flagged == i: e2 = newval('repl%d' % i)
            for st, ix, e in ((s1, idx1, e1), (s2, idx2, e2)):
                d = st['D']
                if is_sym(ix): st['D'] = [z3.If(ix == 0, e, d[0]), z3.If(ix == 1, e, d[1])]
                else: st['D'] = [e if ix == 0 else d[0], e if ix == 1 else d[1]]
        def aread(st, ix):
            d = st['D']
            return z3.If(ix == 0, d[0], d[1]) if is_sym(ix) else d[ix]
        if k == 'D[0]=0': awrite(0, 0, 0, 0)
        elif k == 'D[1]=0': awrite(1, 1, 0, 0)
        elif k == 'D[0]=A': awrite(0, 0, s1['A'], s2['A'])
        elif k == 'D[1]=B': awrite(1, 1, s1['B'], s2['B'])
        elif k == 'D[B]=1':
            inb(s1['B']); inb(s2['B']); awrite(s1['B'], s2['B'], 1, 1)
        elif k == 'C=D[0]': assign('C', aread(s1, 0), aread(s2, 0))
        elif k == 'C=D[B]':
            inb(s1['B']); inb(s2['B']); assign('C', aread(s1, s1['B']), aread(s2, s2['B']))
        elif k == 'B=0': assign('B', 0, 0)
        elif k == 'C=0': assign('C', 0, 0)
        elif k == 'B=A': assign('B', s1['A'], s2['A'])
        elif k == 'B=1': assign('B', 1, 1)
        elif k == 'B=B+1': assign('B', fadd(s1['B'], 1), fadd(s2['B'], 1))
        elif k == 'C=B': assign('C', s1['B'], s2['B'])
        elif k == 'C=1': assign('C', 1, 1)
        elif k == 'C=C+B': assign('C', fadd(s1['C'], s1['B']), fadd(s2['C'], s2['B']))
        elif k == 'A=B': assign('A', s1['B'], s2['B'])
        elif k == 'C=g(B)': assign('C', fadd(s1['B'], 1), fadd(s2['B'], 1))      # g(x) = x + 1 in the generated source
        elif k == 's===B':
            obls.append((pc, eqv(s1['B'], s2['B']), 'the constraint on the output signal at statement %d is the same' % i))
        elif k == 'assertB':
            t1 = s1['B'] != 0; t2 = s2['B'] != 0
            obls.append((pc, eqv(t1, t2), 'the assertion at statement %d has the same outcome' % i))
        elif k == 'final':
            what = 'the value assigned to the output signal `s` (and its constraint)' if dt == 'Template' else 'the return value'
            obls.append((pc, eqv(s1['C'], s2['C']), what + ' is the same'))
        else: raise KeyError(k)

    def eqv(a, b):
        if not is_sym(a) and not is_sym(b): return a == b
        return a == b

    def run(items, pc, s1, s2, cont):
        """execute statements `items` then call cont(pc, s1, s2)"""
        if not items: return cont(pc, s1, s2)
        s, rest = items[0], items[1:]
        k = s[0]
        if k == 'leaf':
            pc = list(pc); npc = len(pc)
            try: leaf(s[1], kinds[s[1]], pc, s1, s2)
            except Stop: return
            if len(pc) > npc and not feasible(z3.And(*pc)): return
            return run(rest, pc, s1, s2, cont)
        if k == 'block': return run(list(s[1]) + list(rest), pc, s1, s2, cont)
        v = conds[s[1]]

        def branch(pc, s1, s2, on_true, on_false):
            c1 = lt3(s1[v]); c2 = lt3(s2[v])
            obls.append((pc, eqv(c1, c2), 'the branch decision at statement %d is the same' % s[1]))
            c1z = c1 if is_sym(c1) else z3.BoolVal(bool(c1)); c2z = c2 if is_sym(c2) else z3.BoolVal(bool(c2))
            same = c1z == c2z
            for val, fn in ((True, on_true), (False, on_false)):
                pcn = pc + [same, c1z if val else z3.Not(c1z)]
                if feasible(z3.And(*pcn)): fn(pcn, {k_: (list(v_) if isinstance(v_, list) else v_) for k_, v_ in s1.items()}, {k_: (list(v_) if isinstance(v_, list) else v_) for k_, v_ in s2.items()})
        if k == 'if':
            branch(pc, s1, s2, lambda p, a, b: run([s[2]] + list(rest), p, a, b, cont), lambda p, a, b: run(rest, p, a, b, cont))
        elif k == 'ifelse':
            branch(pc, s1, s2, lambda p, a, b: run([s[2]] + list(rest), p, a, b, cont), lambda p, a, b: run([s[3]] + list(rest), p, a, b, cont))
        elif k == 'while':
            def loop(pc, s1, s2, n):
                def again(p, a, b):
                    if n >= UNROLL: return        # outside the bound
                    run([s[2]], p, a, b, lambda p2, a2, b2: loop(p2, a2, b2, n + 1))
                branch(pc, s1, s2, again, lambda p, a, b: run(rest, p, a, b, cont))
            loop(pc, s1, s2, 0)
        else: raise KeyError(k)
    run([sk], [], st1, st2, lambda pc, a, b: None)
    return obls, inputs, base


def concrete_run(sk, kinds, conds, dt, flagged, A0, alt):
    """concrete interpreter (python ints) -> effect trace; `alt` supplies replacement values (callable tag -> int) or None for the original run"""
    st = {'A': A0, 'B': 0, 'C': 0, 'D': [0, 0]}
    if flagged == 'param' and alt: st['A'] = alt('Aalt')
    trace = []

    def run(s):
        k = s[0]
        if k == 'leaf':
            i = s[1]; kk = kinds[i]
            if kk == 'assertB': trace.append(('assert', i, st['B'] != 0)); return
            if kk == 'final': trace.append(('final', i, st['C'])); return
            if kk == 's===B': trace.append(('constraint', i, st['B'])); return
            if kk.startswith('D['):
                ix = {'D[0]': 0, 'D[1]': 1, 'D[B]': fval(st['B'])}[kk[:4]]
                val = {'D[0]=0': 0, 'D[1]=0': 0, 'D[0]=A': st['A'], 'D[1]=B': st['B'], 'D[B]=1': 1}[kk]
                if alt and flagged == i: val = alt('repl%d' % i)
                if ix not in (0, 1): trace.append(('out-of-bounds', i, ix)); raise Stop()
                st['D'][ix] = val; return
            if kk in ('C=D[0]', 'C=D[B]'):
                ix = 0 if kk == 'C=D[0]' else fval(st['B'])
                if ix not in (0, 1): trace.append(('out-of-bounds', i, ix)); raise Stop()
                st['C'] = alt('repl%d' % i) if (alt and flagged == i) else st['D'][ix]; return
            tgt, val = {'C=g(B)': ('C', (st['B'] + 1) % P), 'B=0': ('B', 0), 'C=0': ('C', 0), 'B=A': ('B', st['A']), 'B=1': ('B', 1), 'B=B+1': ('B', (st['B'] + 1) % P), 'C=B': ('C', st['B']), 'C=1': ('C', 1),
                        'C=C+B': ('C', (st['C'] + st['B']) % P), 'A=B': ('A', st['B'])}[kk]
            st[tgt] = alt('repl%d' % i) if (alt and flagged == i) else val
        elif k == 'block':
            for x in s[1]: run(x)
        else:
            dec = lambda: fval(st[conds[s[1]]]) < 3
            if k == 'if':
                d = dec(); trace.append(('branch', s[1], d))
                if d: run(s[2])
            elif k == 'ifelse':
                d = dec(); trace.append(('branch', s[1], d))
                run(s[2] if d else s[3])
            else:
                n = 0
                while True:
                    d = dec(); trace.append(('branch', s[1], d))
                    if not d or n > 50: break
                    run(s[2]); n += 1
    try: run(sk)
    except Stop: pass
    return trace


# ----------------------------------------------------------------------------- harness
def describe(sk, kinds, conds):
    k = sk[0]
    if k == 'leaf': return kinds[sk[1]]
    if k == 'block': return '{' + '; '.join(describe(s, kinds, conds) for s in sk[1]) + '}'
    c = '(%s<3) ' % conds[sk[1]]
    if k == 'if': return 'if ' + c + describe(sk[2], kinds, conds)
    if k == 'ifelse': return 'if ' + c + describe(sk[2], kinds, conds) + ' else ' + describe(sk[3], kinds, conds)
    return 'while ' + c + describe(sk[2], kinds, conds)


def run_task(task):
    pr = prog(); ir = IR(pr)
    h = Harness(pr, 'analysis'); h.step_budget = 6_000_000
    h.notes['render_format'] = True
    stats = Stats()
    fam = family_deg(task['tier']) if task.get('mode') == 'degrees' else (family_sig(task['tier']) if task.get('mode') == 'passes' else family(task['tier'])); dt = task['dt']
    shape = z3.Int('shape')
    h.inputs = {'shape': shape}
    base = [shape >= task['lo'], shape < task['hi']]
    R = lambda p, f: h.stub_res.append((re.compile(p), f))
    LIFT = r'(?:intermediate_representation::lifting::|ir::lifting::|lifting::)?TryLift<\(\)>>::try_lift'
    V = {'A': lambda: ir.name('A'), 'B': lambda: ir.name('B'), 'C': lambda: ir.name('C'), 'D': lambda: ir.name('D'), 's': lambda: ir.name('s'), 't': lambda: ir.name('t')}
    local = lambda: ir.vtype('local')

    def mk_stmt(kind, i):
        m = lambda: ir.meta(start=i, end=i)
        var = lambda n: ir.variable(V[n](), meta=m())
        asg = lambda n, e: ir.subst(V[n](), 'AssignLocalOrComponent', e, meta=m())
        if kind == 'B=0': return asg('B', ir.number(0, meta=m()))
        if kind == 'C=0': return asg('C', ir.number(0, meta=m()))
        if task.get('mode') == 'passes':
            sv = lambda n_: ir.variable(ir.name(n_), meta=m())
            lhs, op_, rhs = re.match(r'(\w)(<==|<--|===)(.*)', kind).groups()
            e = {'a*a': lambda: ir.infix('Mul', sv('a'), sv('a'), meta=m()), 'a+1': lambda: ir.infix('Add', sv('a'), ir.number(1, meta=m()), meta=m()), 'b*c': lambda: ir.infix('Mul', sv('b'), sv('c'), meta=m()),
                 'b+c': lambda: ir.infix('Add', sv('b'), sv('c'), meta=m()), 'b*a': lambda: ir.infix('Mul', sv('b'), sv('a'), meta=m()), 'a': lambda: sv('a'), 'b': lambda: sv('b'), 'c': lambda: sv('c')}[rhs]()
            if op_ == '===': return ir.constraint_eq(sv(lhs), e, meta=m())
            return ir.subst(ir.name(lhs), 'AssignConstraintSignal' if op_ == '<==' else 'AssignSignal', e, meta=m())
        if kind == 'B=t': return asg('B', var('t'))
        if kind == 'B=B*t': return asg('B', ir.infix('Mul', var('B'), var('t'), meta=m()))
        if kind == 'B=B+t': return asg('B', ir.infix('Add', var('B'), var('t'), meta=m()))
        if kind == 'C=B*B': return asg('C', ir.infix('Mul', var('B'), var('B'), meta=m()))
        if kind == 'C=C*t': return asg('C', ir.infix('Mul', var('C'), var('t'), meta=m()))
        if kind == 'final' and task.get('mode') == 'degrees': return ir.subst(V['s'](), 'AssignSignal', var('C'), meta=m())
        if kind == 'B=A': return asg('B', var('A'))
        if kind == 'B=1': return asg('B', ir.number(1, meta=m()))
        if kind == 'B=B+1': return asg('B', ir.infix('Add', var('B'), ir.number(1, meta=m()), meta=m()))
        if kind == 'C=B': return asg('C', var('B'))
        if kind == 'C=1': return asg('C', ir.number(1, meta=m()))
        if kind == 'C=C+B': return asg('C', ir.infix('Add', var('C'), var('B'), meta=m()))
        if kind == 'A=B': return asg('A', var('B'))
        if kind == 'assertB': return ir.assert_(var('B'), meta=m())
        if kind.startswith('D['):
            ix = {'D[0]': lambda: ir.number(0, meta=m()), 'D[1]': lambda: ir.number(1, meta=m()), 'D[B]': lambda: var('B')}[kind[:4]]()
            val = {'D[0]=0': lambda: ir.number(0, meta=m()), 'D[1]=0': lambda: ir.number(0, meta=m()), 'D[0]=A': lambda: var('A'), 'D[1]=B': lambda: var('B'), 'D[B]=1': lambda: ir.number(1, meta=m())}[kind]()
            return asg('D', ir.update(V['D'](), [ir.array_access(ix)], val, meta=m()))
        if kind == 'C=D[0]': return asg('C', ir.access(V['D'](), [ir.array_access(ir.number(0, meta=m()))], meta=m()))
        if kind == 'C=D[B]': return asg('C', ir.access(V['D'](), [ir.array_access(var('B'))], meta=m()))
        if kind == 'C=g(B)': return asg('C', ir.call('g', [var('B')], meta=m()))
        if kind == 's===B': return ir.constraint_eq(var('s'), var('B'), meta=m())
        if kind == 'final':
            if dt == 'Template': return ir.subst(V['s'](), 'AssignConstraintSignal', var('C'), meta=m())
            return ir.ret(var('C'), meta=m())
        raise KeyError(kind)

    def lift_meta(ex, a, m):
        am = deref(a[0]); return ok(ir.meta(start=am.f[1], end=am.f[2]))
    R(r'<(?:&)?(?:abstract_syntax_tree::)?(?:ast::)?Meta as ' + LIFT, lift_meta)

    def lift_cond(ex, a, m):
        i = deref(a[0]).data; mm = lambda: ir.meta(start=i, end=i)
        return ok(ir.infix('Lesser', ir.variable(V[ex.notes['conds'][i]](), meta=mm()), ir.number(3, meta=mm()), meta=mm()))
    R(r'<(?:&)?(?:abstract_syntax_tree::)?(?:ast::)?Expression as ' + LIFT, lift_cond)

    def lift_stmt(ex, a, m):
        s = deref(a[0]); i = ir.get(s, 'meta').f[1]
        return ok(mk_stmt(ex.notes['kinds'][i], i))
    R(r'<(?:&)?(?:abstract_syntax_tree::)?(?:ast::)?Statement as ' + LIFT, lift_stmt)
    newphi = pr.method('SSAStatement', 'Statement', 'new_phi_statement', file_hint='ssa_impl')
    R(r'<<Cfg as (?:\w+::)*SSAConfig>::Statement as (?:\w+::)*SSAStatement<Cfg>>::new_phi_statement', lambda ex, a, m: ex.call_mir(newphi, list(a)))

    def claim_key(c):
        kind, use = c
        use = deref(use)
        try: return (kind, ir.get(ir.get(use, 'name'), 'name').concrete(), str(ir.get(ir.get(use, 'name'), 'version')), ir.get(ir.get(use, 'meta'), 'location').f[0])
        except Exception: return (kind, repr(use)[:80])

    def cap(kindname):
        def f(ex, a, m):
            ex.notes['claims'].append((kindname, deref(a[0]))); return Opaque('report', kindname)
        return f
    for fn_, kn in (('build_unused_variable', 'unused-value'), ('build_unused_param', 'unused-param'), ('build_variable_without_side_effect', 'no-side-effect'),
                    ('build_param_without_side_effect', 'param-no-side-effect'), ('build_unused_signal', 'unused-signal'), ('build_unconstrained_signal', 'unconstrained-signal')):
        R(r'(?:side_effect_analysis::)?' + fn_, cap(kn))

    # the time box is C20's subject: here the clock never runs out
    R(r'(?:std::time::)?Instant::now', lambda ex, a, m: Opaque('instant'))
    R(r'(?:std::time::|core::time::)?Duration::from_secs', lambda ex, a, m: Opaque('dur', a[0]))
    if task.get('clock'):
        # C20: the clock is a solver variable - every read returns an arbitrary later instant, so the pass at which the time box fires is
        # the solver's choice; what the propagation has attached when it is cut short must still be sound (checked by the same post conditions)
        NT = 48
        tsv = [z3.Int('clock%d' % i) for i in range(NT)]
        for i, t_ in enumerate(tsv): h.inputs['clock%d' % i] = t_
        base += [tsv[0] >= 0] + [tsv[i] <= tsv[i + 1] for i in range(NT - 1)]
        def elapsed(ex, a, m):
            k = ex.notes.get('clock_reads', 0)
            if k >= NT: raise Unsupported('more than %d clock reads' % NT)
            ex.notes['clock_reads'] = k + 1
            return Opaque('dur', tsv[k])
        R(r'(?:std::time::)?Instant::elapsed', elapsed)
        def dur_cmp(ex, a, m):
            x = deref(a[0]).data; y = deref(a[1]).data
            r = {'gt': zint(x) > zint(y), 'lt': zint(x) < zint(y), 'ge': zint(x) >= zint(y), 'le': zint(x) <= zint(y)}[m.group(1)]
            r = simp(r); r = ex.decide(r) if is_sym(r) else r
            if r and m.group(1) == 'gt': ex.notes['fired'] = ex.notes.get('fired', 0) + 1
            return r
        R(r'<(?:std::time::|core::time::)?Duration as PartialOrd>::(gt|lt|ge|le)', dur_cmp)
    else:
        R(r'(?:std::time::)?Instant::elapsed', lambda ex, a, m: Opaque('dur', 0))
        R(r'<(?:std::time::|core::time::)?Duration as PartialOrd>::(gt|lt|ge|le)', lambda ex, a, m: {'gt': deref(a[0]).data > deref(a[1]).data, 'lt': deref(a[0]).data < deref(a[1]).data,
                                                                                                  'ge': deref(a[0]).data >= deref(a[1]).data, 'le': deref(a[0]).data <= deref(a[1]).data}[m.group(1)])
    S = pr.crates['structure']
    build = pr.find('build_basic_blocks', crate='structure')
    domnew = pr.method(None, 'DominatorTree', 'new')
    envnew = pr.method(None, 'Environment', 'new', file_hint='ssa_impl')
    phi_fn = S['insert_phi_statements']; ssa_fn = S['insert_ssa_variables']
    upd_decl = pr.find('update_declarations', crate='structure')
    bb_types = pr.method(None, 'BasicBlock', 'propagate_types'); bb_cache = pr.method('VariableMeta', 'BasicBlock', 'cache_variable_use')
    decl_new = pr.method(None, 'Declaration', 'new', file_hint='declarations.rs'); decls_add = pr.method(None, 'Declarations', 'add_declaration')
    cfg_types = pr.method(None, 'Cfg', 'propagate_types'); cfg_values = pr.method(None, 'Cfg', 'propagate_values'); cfg_cache = pr.method(None, 'Cfg', 'cache_variable_use')
    ccpass = pr.find('find_constant_conditional_statement', crate='analysis')
    pass_fns = [pr.find(n_, crate='analysis') for n_ in PASSES] if task.get('mode') == 'passes' else []

    def report_key(r_):
        r_ = deref(r_)
        if isinstance(r_, Opaque): return ('opaque', str(r_.tag), str(getattr(r_, 'data', ''))[:40])
        code = ir.get(r_, 'code').var
        rng = lambda l_: (str(deref(l_).f[1]), str(deref(l_).f[2].f[0]), str(deref(l_).f[2].f[1]))
        msg = ir.get(r_, 'message'); msg = msg.concrete() if isinstance(msg, StrV) else str(msg)
        return (str(code), msg, tuple(rng(l_) for l_ in ir.get(r_, 'primary').items), tuple(sorted(rng(l_) for l_ in ir.get(r_, 'secondary').items)))

    def cc_report(ex, a, m):
        ex.notes['cc'][ir.get(deref(a[0]), 'location').f[0]] = a[1]; return Opaque('report', 'cc')
    R(r'(?:constant_conditional::)?build_report', cc_report)
    side = pr.find('run_side_effect_analysis', crate='analysis'); cfg_degrees = pr.method(None, 'Cfg', 'propagate_degrees')

    def entry(ex):
        idx = ex.concretize(shape, task['lo'], task['hi'] - 1)
        sk0, ks, cs = fam[idx]
        if dt == 'Function' and 's===B' in ks: return 'skip'         # no constraints in functions
        sk = C12.number(sk0, [0])
        kinds = dict(zip(leaf_ids(sk), ks)); conds = dict(zip(ctrl_ids(sk), cs))
        ex.notes.update(sk=sk, kinds=kinds, conds=conds, claims=[], ks=ks)
        body = C12.ast_of(ir, sk)
        res = ex.call_mir(build, [Ref([body], 0), Ref([Opaque('liftenv')], 0), Ref([VecV([])], 0)])
        if res.var != 'Ok': ex.oblige(False, 'lift-ok', 'lifting a well-formed skeleton succeeds'); return None
        blocks = res.f[0]
        decls = Struct('Declarations', [MapV()]); dcell = [decls]
        sigty = lambda: ir.vtype('signal', 'Output')
        dl = [(V['A'](), local(), []), (V['B'](), local(), []), (V['C'](), local(), []), (V['D'](), local(), [ir.number(2, meta=ir.meta(903, 903))])] + ([(V['s'](), sigty(), [])] if dt == 'Template' else []) + ([(V['t'](), ir.vtype('signal', 'Input'), [])] if task.get('mode') == 'degrees' else [])
        if task.get('mode') == 'passes':
            dl = [(V['A'](), local(), []), (ir.name('a'), ir.vtype('signal', 'Input'), []), (ir.name('b'), ir.vtype('signal', 'Intermediate'), []), (ir.name('c'), ir.vtype('signal', 'Intermediate'), []), (ir.name('d'), ir.vtype('signal', 'Output'), [])]
        for nm, ty, dims in dl:
            d = ex.call_mir(decl_new, [Ref([nm], 0), Ref([ty], 0), SliceV(VecV(dims), 0, len(dims)), Ref([some(0)], 0), Ref([ir.range_(0, 0)], 0)])
            ex.call_mir(decls_add, [Ref(dcell, 0), Ref([d], 0)])
        stmts0 = ir.get(blocks.items[0], 'stmts')
        pre = [ir.decl([V['B']()], local(), meta=ir.meta(900, 900)), ir.decl([V['C']()], local(), meta=ir.meta(901, 901)), ir.decl([V['D']()], local(), dims=[ir.number(2, meta=ir.meta(903, 903))], meta=ir.meta(903, 903))]
        if dt == 'Template': pre.append(ir.decl([V['s']()], sigty(), meta=ir.meta(902, 902)))
        if task.get('mode') == 'degrees': pre.append(ir.decl([V['t']()], ir.vtype('signal', 'Input'), meta=ir.meta(904, 904)))
        if task.get('mode') == 'passes':
            pre = [ir.decl([ir.name(n_)], ir.vtype('signal', k_), meta=ir.meta(900 + j_, 900 + j_)) for j_, (n_, k_) in enumerate((('a', 'Input'), ('b', 'Intermediate'), ('c', 'Intermediate'), ('d', 'Output')))]
        stmts0.items[0:0] = pre
        n = len(blocks.items)
        for k in range(n):
            ex.call_mir(bb_types, [Ref(blocks.items, k), Ref(dcell, 0)])
            ex.call_mir(bb_cache, [Ref(blocks.items, k)])
        tree = ex.call_mir(domnew, [SliceV(blocks, 0, n)])
        params = ir.S('Parameters', param_names=VecV([V['A']()]), file_id=some(0), file_location=ir.range_(1000, 1000))
        env = ex.call_mir(envnew, [Ref([params], 0), Ref(dcell, 0)]); ecell = [env]
        ex.call_mir(phi_fn, [SliceV(blocks, 0, n), Ref([tree], 0), Ref(ecell, 0)])
        r = ex.call_mir(ssa_fn, [SliceV(blocks, 0, n), Ref([tree], 0), Ref(ecell, 0)])
        if r.var != 'Ok': return 'ssa-err'
        ir.get(params, 'param_names').items[0] = ir.name('A', None, 0)
        bcell = [blocks]
        newdecls = ex.call_mir(upd_decl, [Ref(bcell, 0), Ref([params], 0), Ref(ecell, 0)])
        cfg = ir.S('Cfg', name=StrV.of('T'), constants=ir.constants(ex, 'Bn254'), parameters=params, declarations=newdecls, basic_blocks=bcell[0],
                   definition_type=Enum('DefinitionType', dt), dominator_tree=tree)
        ccell = [cfg]
        ex.call_mir(cfg_types, [Ref(ccell, 0)])
        ex.call_mir(cfg_values, [Ref(ccell, 0)])
        ex.call_mir(cfg_cache, [Ref(ccell, 0)])
        if task.get('mode') == 'values':
            ex.notes['cfg'] = ccell[0]
            ex.notes['cc'] = {}
            ex.call_mir(ccpass, [Ref(ccell, 0)])          # the pass behind the `constant branch condition` finding
            return 'values'
        if task.get('mode') == 'degrees':
            ex.call_mir(cfg_degrees, [Ref(ccell, 0)])
            ex.notes['cfg'] = ccell[0]; return 'degrees'
        if task.get('mode') == 'passes':
            # C17: every intra-procedural pass of get_analysis_passes, with the real report construction, under several iteration orders
            ex.call_mir(cfg_degrees, [Ref(ccell, 0)])
            results = {}
            for order in (None, 'reverse', 'rotate', 'shuffle:1') + (('shuffle:2', 'shuffle:3') if task.get('tier') == 'thorough' else ()):
                ex.h.notes['hash_order'] = order; ex.h.notes['hash_iterations'] = 0
                keys = []
                try:
                    for pf in pass_fns:
                        out_ = ex.call_mir(pf, [Ref(ccell, 0)])
                        keys += [report_key(r_) for r_ in deref(out_).items]
                finally: ex.h.notes['hash_order'] = None
                results[order or 'insertion'] = sorted(keys)
            first = results['insertion']
            for order, got in results.items():
                ex.oblige(got == first, 'order-dependent', 'the analysis passes produce the same multiset of findings when every hash map / set is iterated in the order `%s` (insertion order: %s; %s: %s) on template {%s}' % (order, first, order, got, '; '.join(ex.notes['ks'])))
            ex.oblige(True, 'passes', '%d findings under every order' % len(first))
            return 'orders'
        ex.call_mir(side, [Ref(ccell, 0)])
        if task.get('orders'):
            # C17: the same pass under other iteration orders of every HashMap / HashSet must make the same multiset of claims
            first = sorted(claim_key(c) for c in ex.notes['claims'])
            for order in ('reverse', 'rotate') + (('shuffle:1', 'shuffle:2', 'shuffle:3') if task.get('tier') == 'thorough' else ('shuffle:1',)):
                ex.notes['claims'] = []; ex.h.notes['hash_order'] = order; ex.h.notes['hash_iterations'] = 0
                try: ex.call_mir(side, [Ref(ccell, 0)])
                finally: ex.h.notes['hash_order'] = None
                got = sorted(claim_key(c) for c in ex.notes['claims'])
                ex.oblige(got == first, 'order-dependent', 'the side-effect pass makes the same claims when every hash map / set is iterated in the order `%s` (insertion order: %s, %s: %s) on %s' % (order, first, order, got, describe(ex.notes['sk'], ex.notes['kinds'], ex.notes['conds'])))
            ex.notes['claims'] = []
            return 'orders'
        return 'ok'

    def post_values(ex):
        """C06 on whole programs: every value the real propagate_values attached to an expression node of a program statement must be
        the value of that expression at EVERY dynamic instance of the statement, for all parameter values and paths"""
        sk, kinds, conds = ex.notes['sk'], ex.notes['kinds'], ex.notes['conds']
        text = describe(sk, kinds, conds)
        stmts = {}
        for b in ir.get(ex.notes['cfg'], 'basic_blocks').items:
            for st in ir.get(b, 'stmts').items:
                st = deref(st); loc = ir.get(ir.get(st, 'meta'), 'location').f[0]
                if st.var == 'Substitution' and deref(ir.get(st, 'rhe')).var == 'Phi': continue
                if loc in kinds or loc in conds: stmts[loc] = st
        nclaims = [0]

        def claim_of(e):
            vk = ir.get(ir.get(e, 'meta') if not (e.var == 'Number') else e.f[0], 'value_knowledge') if False else None
            m = e.f[0] if e.var == 'Number' else ir.get(e, 'meta')
            vk = deref(m).f[pr.defs.struct_fields('ir::Meta').index('value_knowledge')]
            v = deref(vk).f[0]
            if v.var != 'Some': return None
            red = deref(v.f[0])
            if red.var == 'FieldElement': return ('field', red.f[0].t)
            if red.var == 'Boolean': return ('bool', red.f[0])
            return None

        def ev(e, st, pc, obls, where):
            """value of IR expression e in reference state st; appends (pc, claim holds) for every node with a claim"""
            e = deref(e)
            if isinstance(e, BoxV): e = deref(e.f[0])
            k = e.var
            if k == 'Number': val = e.f[1].t
            elif k == 'Variable':
                nm_ = ir.get(ir.get(e, 'name'), 'name').concrete()
                if nm_ in st: val = st[nm_]
                else:       # a signal: its value is unconstrained in the reference run, so any constant claimed for it is refutable
                    val = z3.Int('signal_%s_%d' % (nm_, len(obls))); ex.h.inputs[str(val)] = val
            elif k == 'InfixOp':
                l = ev(ir.get(e, 'lhe'), st, pc, obls, where); r = ev(ir.get(e, 'rhe'), st, pc, obls, where); op = ir.get(e, 'infix_op').var
                if op == 'Add': val = fadd(l, r)
                elif op == 'Lesser': val = ('bool', fval(l) < fval(r))
                else: raise Unsupported('operator %s in the reference semantics' % op)
            elif k == 'Access':
                ix = ev(deref(ir.get(e, 'access').items[0]).f[0], st, pc, obls, where)
                v_ = fval(ix); c = z3.And(v_ >= 0, v_ <= 1) if is_sym(v_) else (0 <= v_ <= 1)
                if c is False: raise Stop()
                if c is not True: pc.append(c)
                d = st['D']; val = z3.If(ix == 0, d[0], d[1]) if is_sym(ix) else d[ix]
            elif k == 'Update':
                ev(deref(ir.get(e, 'access').items[0]).f[0], st, pc, obls, where); ev(ir.get(e, 'rhe'), st, pc, obls, where)
                return None
            elif k == 'Call':
                a = ev(ir.get(e, 'args').items[0], st, pc, obls, where); val = fadd(a, 1)
            else: raise Unsupported('expression %s in the reference semantics' % k)
            c = claim_of(e)
            if c is not None:
                nclaims[0] += 1
                if c[0] == 'field':
                    holds = (val == c[1]) if not isinstance(val, tuple) else False
                else:
                    truth = val[1] if isinstance(val, tuple) else (val != 0)
                    holds = (truth == c[1]) if is_sym(truth) else (bool(truth) == bool(c[1]))
                obls.append((list(pc), holds, 'the %s node of statement %s is claimed to be %s' % (k, where, c[1])))
            return val

        A0 = z3.Int('A0'); ex.h.inputs['A0'] = A0; ex.assume(z3.And(A0 >= 0, A0 < P))
        obls = []
        slv = z3.Solver(); slv.set('timeout', 20000); slv.add(A0 >= 0, A0 < P)
        def feasible(c):
            slv.push(); slv.add(c); r = slv.check(); slv.pop()
            if r == z3.unknown: raise Unsupported('reference run: solver returned unknown')
            return r == z3.sat

        def leaf(i, st, pc):
            kk = kinds[i]; irst = stmts.get(i)
            if irst is not None:
                for fld in ('rhe', 'arg', 'value', 'lhe'):
                    try: e = ir.get(irst, fld)
                    except (KeyError, ValueError): continue
                    ev(e, st, pc, obls, i)
            # then the effect of the statement on the reference state
            if kk in ('assertB', 'final', 's===B'): return
            if kk.startswith('D['):
                ix = {'D[0]': 0, 'D[1]': 1, 'D[B]': st['B']}[kk[:4]]
                val = {'D[0]=0': 0, 'D[1]=0': 0, 'D[0]=A': st['A'], 'D[1]=B': st['B'], 'D[B]=1': 1}[kk]
                d = st['D']; st['D'] = [z3.If(ix == 0, val, d[0]), z3.If(ix == 1, val, d[1])] if is_sym(ix) else [val if ix == 0 else d[0], val if ix == 1 else d[1]]
                return
            if kk in ('C=D[0]', 'C=D[B]'):
                ix = 0 if kk == 'C=D[0]' else st['B']; d = st['D']
                st['C'] = z3.If(ix == 0, d[0], d[1]) if is_sym(ix) else d[ix]; return
            tgt, val = {'B=0': ('B', 0), 'C=0': ('C', 0), 'B=A': ('B', st['A']), 'B=1': ('B', 1), 'B=B+1': ('B', fadd(st['B'], 1)), 'C=B': ('C', st['B']), 'C=1': ('C', 1),
                        'C=C+B': ('C', fadd(st['C'], st['B'])), 'A=B': ('A', st['B']), 'C=g(B)': ('C', fadd(st['B'], 1))}[kk]
            st[tgt] = val

        def run(items, pc, st, budget):
            if not items: return
            s_, rest = items[0], items[1:]
            k = s_[0]
            if k == 'leaf':
                pc = list(pc); n0 = len(pc)
                try: leaf(s_[1], st, pc)
                except Stop: return
                if len(pc) > n0 and not feasible(z3.And(*pc)): return
                return run(rest, pc, st, budget)
            if k == 'block': return run(list(s_[1]) + list(rest), pc, st, budget)
            i = s_[1]; pc = list(pc)
            irst = stmts.get(i)
            cval = ev(ir.get(irst, 'cond'), st, pc, obls, i) if irst is not None else ('bool', fval(st[conds[i]]) < 3)
            c = cval[1]; cz = c if is_sym(c) else z3.BoolVal(bool(c))
            if i in ex.notes['cc']:
                said = ex.notes['cc'][i]; said = ex.decide(said) if is_sym(said) else said
                obls.append((list(pc), (cz == z3.BoolVal(bool(said))), 'the finding `This condition is always %s` at statement %s' % (str(bool(said)).lower(), i)))
            cp = lambda d_: {k_: (list(v_) if isinstance(v_, list) else v_) for k_, v_ in d_.items()}
            for val in (True, False):
                pcn = pc + [cz if val else z3.Not(cz)]
                if not feasible(z3.And(*pcn)): continue
                if k == 'if': run(([s_[2]] if val else []) + list(rest), pcn, cp(st), budget)
                elif k == 'ifelse': run([s_[2] if val else s_[3]] + list(rest), pcn, cp(st), budget)
                else:
                    if val:
                        n = budget.get(i, 0)
                        if n >= UNROLL: continue
                        nb = dict(budget); nb[i] = n + 1
                        run([s_[2], s_] + list(rest), pcn, cp(st), nb)
                    else: run(rest, pcn, cp(st), budget)
        run([sk], [], {'A': A0, 'B': 0, 'C': 0, 'D': [0, 0]}, {})
        info = {'program': text, 'dt': dt}
        for pc, holds, what in obls:
            if holds is True: ex.oblige(True, 'value-claim', what); continue
            hz = holds if is_sym(holds) else z3.BoolVal(bool(holds))
            ex.oblige(z3.Implies(z3.And(*pc), hz) if pc else hz, 'value-claim', '%s, but it has another value in some execution (%s)' % (what, text) if 'finding' not in what else '%s is issued, but the condition evaluates to the opposite in some execution (%s)' % (what, text), extra=info)
        ex.oblige(True, 'claims', 'every value claim on this program checked (%d claim instances)' % nclaims[0])

    def post_degrees(ex):
        """C07 on whole programs: every upper degree bound (constant / linear / quadratic) the real propagate_degrees attached to an
        expression node bounds the total degree, in the input signal t, of the polynomial that node evaluates to at EVERY dynamic instance"""
        sk, kinds, conds = ex.notes['sk'], ex.notes['kinds'], ex.notes['conds']
        text = describe(sk, kinds, conds)
        stmts = {}
        for b in ir.get(ex.notes['cfg'], 'basic_blocks').items:
            for st in ir.get(b, 'stmts').items:
                st = deref(st); loc = ir.get(ir.get(st, 'meta'), 'location').f[0]
                if st.var == 'Substitution' and deref(ir.get(st, 'rhe')).var == 'Phi': continue
                if loc in kinds or loc in conds: stmts[loc] = st
        RANK = {'Constant': 0, 'Linear': 1, 'Quadratic': 2}
        padd = lambda p_, q_: {e: (p_.get(e, 0) + q_.get(e, 0)) % P for e in set(p_) | set(q_)}
        def pmul(p_, q_):
            out = {}
            for e1, c1 in p_.items():
                for e2, c2 in q_.items(): out[e1 + e2] = (out.get(e1 + e2, 0) + c1 * c2) % P
            return out
        pdeg = lambda p_: max([e for e, c in p_.items() if c % P != 0] + [0])
        bad = []; ninst = [0]

        def bound_of(e):
            m = e.f[0] if e.var == 'Number' else ir.get(e, 'meta')
            dk = deref(m).f[pr.defs.struct_fields('ir::Meta').index('degree_knowledge')]
            v = deref(dk).f[0]
            if v.var != 'Some': return None
            hi = deref(v.f[0]).f[1].var
            return RANK.get(hi)

        def ev(e, st, where):
            e = deref(e)
            if isinstance(e, BoxV): e = deref(e.f[0])
            k = e.var
            if k == 'Number': val = {0: e.f[1].t % P}
            elif k == 'Variable':
                nm_ = ir.get(ir.get(e, 'name'), 'name').concrete()
                val = {1: 1} if nm_ == 't' else st[nm_]
            elif k == 'InfixOp':
                l = ev(ir.get(e, 'lhe'), st, where); r = ev(ir.get(e, 'rhe'), st, where); op = ir.get(e, 'infix_op').var
                if op == 'Add': val = padd(l, r)
                elif op == 'Mul': val = pmul(l, r)
                elif op == 'Lesser': return None          # conditions are over the parameter only
                else: raise Unsupported('operator %s in the polynomial semantics' % op)
            else: raise Unsupported('expression %s in the polynomial semantics' % k)
            bnd = bound_of(e)
            if bnd is not None and val is not None:
                ninst[0] += 1
                if pdeg(val) > bnd: bad.append('the %s node of statement %s is claimed to be of degree <= %d but evaluates to a polynomial of degree %d in t' % (k, where, bnd, pdeg(val)))
            return val

        A0 = z3.Int('A0'); ex.h.inputs['A0'] = A0
        slv = z3.Solver(); slv.add(A0 >= 0, A0 < P)
        def feasible(c):
            slv.push(); slv.add(c); r = slv.check(); slv.pop(); return r == z3.sat

        def leaf(i, st):
            kk = kinds[i]; irst = stmts.get(i)
            if irst is not None and irst.var == 'Substitution': ev(ir.get(irst, 'rhe'), st, i)
            B_, C_, T_ = st['B'], st['C'], {1: 1}
            upd = {'B=0': ('B', {0: 0}), 'C=0': ('C', {0: 0}), 'B=t': ('B', T_), 'B=B*t': ('B', pmul(B_, T_)), 'B=B+t': ('B', padd(B_, T_)), 'C=B*B': ('C', pmul(B_, B_)),
                   'C=C+B': ('C', padd(C_, B_)), 'C=B': ('C', dict(B_)), 'B=1': ('B', {0: 1}), 'C=C*t': ('C', pmul(C_, T_))}.get(kk)
            if upd: st[upd[0]] = upd[1]

        def run(items, pc, st, budget):
            if not items: return
            s_, rest = items[0], items[1:]; k = s_[0]
            if k == 'leaf':
                leaf(s_[1], st); return run(rest, pc, st, budget)
            if k == 'block': return run(list(s_[1]) + list(rest), pc, st, budget)
            i = s_[1]; cz = fval(A0) < 3
            for val in (True, False):
                pcn = pc + [cz if val else z3.Not(cz)]
                if not feasible(z3.And(*pcn)): continue
                if k == 'if': run(([s_[2]] if val else []) + list(rest), pcn, dict(st), budget)
                elif k == 'ifelse': run([s_[2] if val else s_[3]] + list(rest), pcn, dict(st), budget)
                else:
                    if val:
                        n = budget.get(i, 0)
                        if n >= UNROLL: continue
                        nb = dict(budget); nb[i] = n + 1
                        run([s_[2], s_] + list(rest), pcn, dict(st), nb)
                    else: run(rest, pcn, dict(st), budget)
        run([sk], [], {'B': {0: 0}, 'C': {0: 0}}, {})
        info = {'program': text}
        for msg in sorted(set(bad))[:4]: ex.oblige(False, 'degree-claim', '%s in some execution (%s)' % (msg, text), extra=info)
        ex.oblige(True, 'claims', 'every degree bound on this program checked (%d claim instances)' % ninst[0])

    def post(ex, res):
        if res == 'orders': return
        if res == 'values': return post_values(ex)
        if res == 'degrees': return post_degrees(ex)
        if res != 'ok': return
        sk, kinds, conds = ex.notes['sk'], ex.notes['kinds'], ex.notes['conds']
        text = describe(sk, kinds, conds)
        seen = set()
        for kind, use in ex.notes['claims']:
            if 'signal' in kind: continue          # claims about signals are not C09's subject
            loc = ir.get(ir.get(use, 'meta'), 'location').f[0]
            nm = ir.get(ir.get(use, 'name'), 'name').concrete()
            flagged = 'param' if loc == 1000 else loc
            if flagged in seen: continue
            seen.add(flagged)
            if flagged != 'param' and flagged not in kinds:
                ex.oblige(False, 'claim-anchor', 'the claim about `%s` is anchored at a statement of the program (location %s) in %s' % (nm, loc, text)); continue
            obls, inputs, basec = product_obligations(sk, kinds, conds, dt, flagged)
            for name_, v in inputs.items(): ex.h.inputs[name_] = v
            for c in basec: ex.assume(c)
            info = {'program': text, 'dt': dt, 'claim': kind, 'variable': nm, 'flagged': flagged}
            for pc, same, what in obls:
                if same is True: ex.oblige(True, 'effect', what); continue
                cond = z3.Implies(z3.And(*pc), same if is_sym(same) else z3.BoolVal(bool(same))) if pc else (same if is_sym(same) else z3.BoolVal(bool(same)))
                ex.oblige(cond, 'claim-false', 'the tool claims `%s` for `%s` assigned at %s, but after replacing that value %s differs (%s)' % (kind, nm, 'the parameter list' if flagged == 'param' else 'statement %s' % flagged, what.replace(' is the same', '').replace(' has the same outcome', ''), text), extra=info)
        if os.environ.get('C09_DEBUG'): common.log('C09 %s %s: claims %s' % (dt, text, [(k, ir.get(ir.get(u, 'name'), 'name').concrete(), ir.get(ir.get(u, 'meta'), 'location').f[0]) for k, u in ex.notes['claims']]))
        if task.get('collect'):
            h.notes['collected'] = [(CODE[k], 'param' if ir.get(ir.get(u, 'meta'), 'location').f[0] == 1000 else ir.get(ir.get(u, 'meta'), 'location').f[0]) for k, u in ex.notes['claims'] if k in CODE]
        ex.oblige(True, 'claims', 'every claim of the pass checked on this program (%d claims)' % len(seen))
    st, vs, inc = explore(h, entry, None, post=post, base=base, stats=stats, seed=common.seed())
    out = []
    for v in vs:
        pv = common.pack_violation(v); out.append(pv)
    res = {'stats': common.pack_stats(stats), 'violations': out}
    if task.get('collect'): res['claims'] = h.notes.get('collected', [])
    return res


# ----------------------------------------------------------------------------- native side: the same program as Circom source
SRC = {'B=0': 'var B = 0;', 'C=0': 'var C = 0;', 'D[0]=0': 'var D[2]; D[0] = 0;', 'D[1]=0': 'D[1] = 0;', 'D[0]=A': 'D[0] = A;', 'D[1]=B': 'D[1] = B;', 'D[B]=1': 'D[B] = 1;', 'C=D[0]': 'C = D[0];', 'C=D[B]': 'C = D[B];', 'B=A': 'B = A;', 'B=1': 'B = 1;', 'B=B+1': 'B = B + 1;', 'C=B': 'C = B;', 'C=1': 'C = 1;', 'C=C+B': 'C = C + B;', 'A=B': 'A = B;',
       'assertB': 'assert(B);', 's===B': 's === B;', 'C=g(B)': 'C = g(B);'}
CODE = {'unused-value': 'CS0006', 'unused-param': 'CS0007', 'no-side-effect': 'CS0008', 'param-no-side-effect': 'CS0008'}


SRC_DEG = {'B=t': 'B = t;', 'B=B*t': 'B = B * t;', 'B=B+t': 'B = B + t;', 'C=B*B': 'C = B * B;', 'C=C*t': 'C = C * t;'}


def source_of(sk, kinds, conds, dt, degrees=False):
    """-> (text, {line start offset: statement id})"""
    text = 'pragma circom 2.0.0;\nfunction g(x) {\n    return x + 1;\n}\n'
    text += ('template T(A) {\n    signal output s;\n' if dt == 'Template' else 'function f(A) {\n')
    if degrees: text += '    signal input t;\n'
    spans = []

    def emit(s, ind):
        nonlocal text
        pad = '    ' * ind; k = s[0]
        if k == 'leaf':
            kk = kinds[s[1]]
            line = (SRC_DEG.get(kk) or SRC[kk]) if kk != 'final' else (('s <-- C;' if degrees else 's <== C;') if dt == 'Template' else 'return C;')
            text += pad; spans.append((len(text), len(text) + len(line), s[1])); text += line + '\n'
        elif k == 'block':
            for x in s[1]: emit(x, ind)
        else:
            head = ('while (%s < 3) {' if k == 'while' else 'if (%s < 3) {') % conds[s[1]]
            text += pad + head + '\n'; emit(s[2], ind + 1); text += pad + '}'
            if k == 'ifelse':
                text += ' else {\n'; emit(s[3], ind + 1); text += pad + '}'
            text += '\n'
    emit(sk, 1)
    text += '}\n'
    return text, spans


def native_claims(nat, sk, kinds, conds, dt):
    """claims of the natively compiled pipeline about locals / the parameter: set of (code, statement id | 'param')"""
    text, spans = source_of(sk, kinds, conds, dt)
    d = tempfile.mkdtemp(prefix='vc09_', dir=common.CACHE)
    try:
        path = os.path.join(d, 'a.circom'); open(path, 'w').write(text)
        out = nat.ask('analyzefile bn254 ' + path, timeout=30)
    finally:
        shutil.rmtree(d, ignore_errors=True)
    if not out.startswith('OK'): return None, out
    got = set()
    head = text.index('T(A)' if dt == 'Template' else 'f(A)')
    for tok in out.split()[1:]:
        f = tok.split(':')
        if f[0] not in ('CS0006', 'CS0007', 'CS0008'): continue
        a = int(f[2].split('-')[0])
        sid = [i for lo, hi, i in spans if lo <= a < hi]
        if sid: got.add((f[0], sid[0]))
        elif head <= a < text.index('{', head): got.add((f[0], 'param'))
        # anything else (the signal declaration, function g) is not a claim about a local of the program
    return got, out


def engine_claims(tier, idx, dt):
    """claims the engine run of the real pass makes on program idx"""
    os.environ['C09_COLLECT'] = '1'
    try:
        r = run_task({'lo': idx, 'hi': idx + 1, 'tier': tier, 'dt': dt})
    finally:
        os.environ.pop('C09_COLLECT', None)
    return r


def confirm(tier, v, dt):
    """(a) the natively compiled pipeline makes the same claim on generated source; (b) the concrete interpreter shows the differing effect"""
    m = v['model']; idx = m.get('shape', 0); info = v.get('extra', {}) or {}
    sk0, ks, cs = family(tier)[idx]
    sk = C12.number(sk0, [0]); kinds = dict(zip(leaf_ids(sk), ks)); conds = dict(zip(ctrl_ids(sk), cs))
    flagged = info.get('flagged')
    if flagged is None: return None, 'no flagged statement recorded', None
    nat = common.Native(common.build_replay('vr_analysis'))
    try: got, raw = native_claims(nat, sk, kinds, conds, dt)
    finally: nat.close()
    if got is None: return None, 'native pipeline: ' + raw[:200], None
    code = CODE.get(info.get('claim'), '?')
    claimed = (code, flagged) in got
    alt = lambda tag: next((val for k_, val in m.items() if k_.startswith(tag + '_') or k_ == tag), 0)
    vals = {}
    def altf(tag):
        # the n-th dynamic instance of a replacement reads the n-th solver variable with that tag
        n = vals.get(tag, 0); vals[tag] = n + 1
        ks_ = sorted((k_ for k_ in m if k_.startswith(tag + '_')), key=lambda x: int(x.rsplit('_', 1)[1]))
        return m.get(ks_[n], 0) if n < len(ks_) else 0
    t1 = concrete_run(sk, kinds, conds, dt, flagged, m.get('A0', 0), None)
    t2 = concrete_run(sk, kinds, conds, dt, flagged, m.get('A0', 0), altf)
    differs = t1 != t2
    return (claimed and differs), {'native claim present': claimed, 'effects original': t1[-4:], 'effects perturbed': t2[-4:]}, {'native claim present': True, 'effects': 'differ'}


def main(tier, replay=None):
    rep = common.Report('C09', tier)
    if replay:
        d = json.load(open(replay)); bad, got, exp = confirm(d.get('tier', tier), d['violation'], d['dt'])
        print('replay: observed=%s expected=%s -> %s' % (got, exp, 'VIOLATION' if bad else 'holds')); return 1 if bad else 0
    # translator validation: on fixed programs the engine run of the pass and the natively compiled pipeline make the same claims
    fam = family(tier)
    picks = [i for i in (0, 5, len(fam) // 3, len(fam) // 2, (2 * len(fam)) // 3, len(fam) - 1)]
    nat = common.Native(common.build_replay('vr_analysis'))
    try:
        for idx in picks:
            for dt in ('Template', 'Function'):
                sk0, ks, cs = fam[idx]
                if dt == 'Function' and 's===B' in ks: continue
                sk = C12.number(sk0, [0]); kinds = dict(zip(leaf_ids(sk), ks)); conds = dict(zip(ctrl_ids(sk), cs))
                got, raw = native_claims(nat, sk, kinds, conds, dt)
                r = run_task({'lo': idx, 'hi': idx + 1, 'tier': tier, 'dt': dt, 'collect': True})
                eng = set(tuple(x) for x in r.get('claims', []))
                rep.validated += 1
                if got is None or eng != got:
                    rep.inconclusive.append('program %s (%s): the engine run of the pass claims %s, the natively compiled pipeline %s' % (describe(sk, kinds, conds), dt, sorted(eng, key=str), sorted(got, key=str) if got is not None else raw[:200]))
    finally:
        nat.close()
    ts = tasks(tier)
    results = common.run_tasks('specs.C09', ts)
    known = common.load_known('C09'); seen = {}
    for r in results:
        if 'error' in r:
            rep.inconclusive.append('task %s: %s' % (r['task'], r['error'][:500])); continue
        rep.add_stats(r['stats'])
        for v in r['violations']:
            info = v.get('extra', {}) or {}
            role = {'function': 'run_side_effect_analysis', 'kind': v['kind'], 'class': str(info.get('claim', 'any'))}
            key = json.dumps(role, sort_keys=True)
            if key in seen: continue
            bad, got, exp = confirm(tier, v, r['task']['dt']) if v['kind'] == 'claim-false' else (None, 'engine-level only', None)
            rep.validated += 1
            if bad is False:
                rep.nonrepro.append({'task': r['task'], 'violation': v, 'observed': got}); continue
            seen[key] = 1
            k = common.match_known(known, role)
            desc = '%s model %s observed=%s' % (v['msg'], v['model'], got)
            if k: rep.known_hits.append('%s (%s)' % (k['id'], desc[:300]))
            else:
                rep.violations.append(rep.save_replay(role, {'property': 'C09', 'tier': tier, 'dt': r['task']['dt'], 'violation': v, 'observed': got, 'expected': exp, 'native_replay': bad is True}))
                common.log('VIOLATION detail:', desc)
    if rep.nonrepro and not rep.violations:
        rep.inconclusive.append('%d counterexamples did not reproduce natively, e.g. %s' % (len(rep.nonrepro), json.dumps(rep.nonrepro[0], default=str)[:400]))
    pr = prog()
    rep.bounds = {'programs': '%d structured programs (if / if-else / while, braced non-empty bodies, <= %d free statements between `B = 0; C = 0; D[0] = 0; D[1] = 0;` and the final `s <== C` / `return C`), as template and as function; leaf alphabet %s; conditions v < 3 for v in A, B, C' % (len(fam), 3 if tier == 'quick' else 4, KINDS),
                  'executions': 'all parameter values in the field, all replacement values (fresh per dynamic instance), every path with <= %d iterations per loop' % UNROLL}
    rep.stubs = ['leaf lifting (ast -> ir statement / condition) returns harness-built IR statements', 'Instant::now / elapsed (the time box never fires: C20)', 'build_* report constructors of the pass (argument captured)']
    rep.assumptions = ['reference semantics: field arithmetic modulo the BN254 prime, `<` on signed representatives, D a two-element array (executions indexing it out of bounds are outside the model), g(x) = x + 1', 'the effects compared are those listed by the property: value assigned to the output signal / constraint operand, assertion outcome, return value, branch decisions',
                       'HashMap / HashSet modelled as association lists (iteration order = insertion order)', 'source hash ' + pr.hashes['analysis'] + '/' + pr.hashes['structure']]
    rep.outside = ['components, input signals, intermediate signals, tuples, logs, inline arrays, multi-dimensional arrays, array sizes depending on variables', 'programs with more statements; executions with more loop iterations',
                   'claims about signals (CS0006 unused signal, unconstrained signal): not the subject of C09', 'real leaf lifting (the native validation compares claims on generated source for fixed programs)']
    return rep.finish()
