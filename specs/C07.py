"""C07 — degree claims are sound.

K1 (Kani, kani/src/degree.rs): the 23 Degree transfer functions and their DegreeRange lifting are
    sound w.r.t. the least sound bound and monotone; Ord = rank order; predicates.
K2 (mirsym): the private dispatch ExpressionInfixOpcode/PrefixOpcode::propagate_degrees executed
    from MIR with a symbolic opcode and symbolic optional ranges: None in => None out, and
    for every x in lhr, y in rhr the reference degree of `x op y` is <= the end of the result.
X  (mirsym): one-step soundness of Expression::propagate_degrees for each IR node kind (see irrules).
"""
import os, sys, re, json, subprocess, time
import z3
from . import common
from mirsym.program import Program
from mirsym.engine import Harness, explore, Stats, Unsupported
from mirsym.values import *
from mirsym import models

_prog = None
RANK = {'Constant': 0, 'Linear': 1, 'Quadratic': 2, 'NonQuadratic': 3}
SRC = ['program_structure/src/intermediate_representation/degree_meta.rs', 'program_structure/src/intermediate_representation/expression_impl.rs']


def prog():
    global _prog
    if _prog is None: _prog = Program(['algebra', 'structure'])
    return _prog


def ref_infix(name, x, y):
    """least sound upper bound (rank 0..3) of the degree of `x op y`; x, y z3 Ints"""
    if name in ('Add', 'Sub'): return z3.If(x >= y, x, y)
    if name == 'Mul': return z3.If(x + y >= 3, 3, x + y)
    if name == 'Div': return z3.If(y == 0, x, 3)
    return z3.If(z3.And(x == 0, y == 0), 0, 3)


def ref_prefix(name, x):
    if name == 'Sub': return x
    return z3.If(x == 0, 0, 3)


def sym_degree(name): return Enum('Degree', z3.Int(name))


def rank(ex, d):
    r = ex.discriminant(d)
    return r


def tasks(tier):
    ts = [{'kind': 'infix', 'lhs': l, 'rhs': r} for l in (True, False) for r in (True, False)]
    ts += [{'kind': 'prefix', 'arg': a} for a in (True, False)]
    ts += [{'kind': 'rule', 'node': n} for n in irrule_nodes()]
    # whole programs: every upper degree bound of the real Cfg::propagate_degrees holds at every dynamic instance
    from . import C09
    ts += [{'kind': 'programs', 't': t} for t in C09.tasks_deg(tier)]
    return ts


def confirm_program(tier, t, v):
    """the natively compiled pipeline makes the same degree claim on generated source"""
    from . import C09, C12
    from .C14ssa import leaf_ids
    import re as _re
    m = v['model']; idx = m.get('shape', 0)
    sk0, ks, cs = C09.family_deg(tier)[idx]
    sk = C12.number(sk0, [0]); kinds = dict(zip(leaf_ids(sk), ks)); conds = dict(zip(C09.ctrl_ids(sk), cs))
    text, spans = C09.source_of(sk, kinds, conds, 'Template', degrees=True)
    mm = _re.search(r'the (\w+) node of statement (\d+) is claimed to be of degree <= (\d)', v['msg'])
    if not mm: return None, 'unparsed claim', None
    kind, sid, bnd = mm.group(1), int(mm.group(2)), int(mm.group(3))
    nat = common.Native(common.build_replay('vr_analysis'))
    try:
        start = text.index('template T(A)')
        out = nat.ask('degdump ' + text[start:].encode().hex(), timeout=30)
    finally:
        nat.close()
    if not out.startswith('['): return None, 'native pipeline: ' + out[:200], None
    claims = json.loads(out)
    lo_hi = [(lo - start, hi - start) for lo, hi, i in spans if i == sid]
    here = [c for c in claims if any(lo <= c[0] < hi for lo, hi in lo_hi)]
    name = ['constant', 'linear', 'quadratic'][bnd]
    present = any(c[1] == kind and c[2] == name for c in here)
    return present, {'native claims at the statement': here[:6]}, {'claim': [kind, name]}


def irrule_nodes():
    try:
        from . import irrules
        return irrules.DEGREE_NODES
    except ImportError:
        return []


def run_task(task):
    pr = prog()
    if task['kind'] == 'programs':
        from . import C09
        return C09.run_task(task['t'])
    if task['kind'] == 'rule':
        from . import irrules
        return irrules.run_degree_rule(pr, task)
    h = Harness(pr, 'structure')
    stats = Stats()
    defs = pr.defs
    if task['kind'] == 'infix':
        fn = pr.method(None, 'ExpressionInfixOpcode', 'propagate_degrees', file_hint='intermediate_representation')
        variants = defs.enum_variants('ir::ExpressionInfixOpcode')
        op = z3.Int('op'); a0, a1, b0, b1, x, y = z3.Ints('a0 a1 b0 b1 x y')
        h.inputs = {'op': op, 'a0': a0, 'a1': a1, 'b0': b0, 'b1': b1, 'x': x, 'y': y}
        base = [op >= 0, op < len(variants)] + [z3.And(v >= 0, v <= 3) for v in (a0, a1, b0, b1, x, y)] + [a0 <= a1, b0 <= b1, a0 <= x, x <= a1, b0 <= y, y <= b1]

        def mk(ex):
            lhr = Struct('DegreeRange', [Enum('Degree', a0), Enum('Degree', a1)])
            rhr = Struct('DegreeRange', [Enum('Degree', b0), Enum('Degree', b1)])
            return [Ref([Enum('ir::ExpressionInfixOpcode', op)], 0),
                    models.some(Ref([lhr], 0)) if task['lhs'] else models.none(),
                    models.some(Ref([rhr], 0)) if task['rhs'] else models.none()]

        def post(ex, res):
            if not (task['lhs'] and task['rhs']):
                ex.oblige(res.var == 'None', 'unknown-operand', 'an operand of unknown degree gives no degree claim')
                return
            if res.var == 'None': return     # no claim is always sound
            r = res.f[0]
            end = rank(ex, r.f[1])
            for i, (vn, d, _) in enumerate(variants):
                ex.oblige(simp(z3.Implies(op == d, zint(end) >= ref_infix(vn, x, y))), 'degree-sound',
                          'opcode %s: claimed upper bound >= least sound bound for every operand degree inside the ranges' % vn)
        st, vs, inc = explore(h, fn, mk, post=post, base=base, stats=stats, seed=common.seed())
        for v in vs: v.extra['variants'] = [vn for vn, _, _ in variants]
    else:
        fn = pr.method(None, 'ExpressionPrefixOpcode', 'propagate_degrees', file_hint='intermediate_representation')
        variants = defs.enum_variants('ir::ExpressionPrefixOpcode')
        op = z3.Int('op'); a0, a1, x = z3.Ints('a0 a1 x')
        h.inputs = {'op': op, 'a0': a0, 'a1': a1, 'x': x}
        base = [op >= 0, op < len(variants)] + [z3.And(v >= 0, v <= 3) for v in (a0, a1, x)] + [a0 <= a1, a0 <= x, x <= a1]

        def mk(ex):
            rng = Struct('DegreeRange', [Enum('Degree', a0), Enum('Degree', a1)])
            return [Ref([Enum('ir::ExpressionPrefixOpcode', op)], 0), models.some(Ref([rng], 0)) if task['arg'] else models.none()]

        def post(ex, res):
            if not task['arg']:
                ex.oblige(res.var == 'None', 'unknown-operand', 'an operand of unknown degree gives no degree claim'); return
            if res.var == 'None': return
            end = rank(ex, res.f[0].f[1])
            for vn, d, _ in variants:
                ex.oblige(simp(z3.Implies(op == d, zint(end) >= ref_prefix(vn, x))), 'degree-sound', 'prefix opcode %s: claimed upper bound >= least sound bound' % vn)
        st, vs, inc = explore(h, fn, mk, post=post, base=base, stats=stats, seed=common.seed())
        for v in vs: v.extra['variants'] = [vn for vn, _, _ in variants]
    return {'stats': common.pack_stats(stats), 'violations': [common.pack_violation(v) for v in vs]}


# ----------------------------------------------------------------------------- Kani part
KANI_HARNESSES = ['degree::degree_infix_sound', 'degree::degree_prefix_sound', 'degree::range_infix_sound', 'degree::range_prefix_sound',
                  'degree::range_inf_and_predicates', 'degree::degree_order_is_rank_order']


def run_kani(harness_prefix, rep, expect):
    """runs `cargo kani` on /verif/kani (path dependency on /repo); returns list of failed harness names"""
    env = dict(os.environ, CARGO_NET_OFFLINE='true')
    cmd = ['bash', '-c', 'ulimit -v 16000000; exec timeout 1500 cargo kani --target-dir %s/kani-target --output-format regular' % common.CACHE]
    t = time.time()
    r = subprocess.run(cmd, cwd=os.path.join(common.ROOT, 'kani'), env=env, capture_output=True, text=True)
    out = r.stdout + r.stderr
    wall = time.time() - t
    res = {}
    cur = None; checks = 0
    for line in out.split('\n'):
        m = re.match(r'Checking harness (\S+?)\.\.\.', line)
        if m: cur = m.group(1); res[cur] = {'status': None, 'checks': 0, 'cover': None, 'failed': []}
        if cur:
            m = re.match(r'\s*\*\* (\d+) of (\d+) failed', line)
            if m: res[cur]['checks'] = int(m.group(2))
            if 'VERIFICATION:- SUCCESSFUL' in line: res[cur]['status'] = 'ok'
            if 'VERIFICATION:- FAILED' in line: res[cur]['status'] = 'failed'
            m = re.match(r'Failed Checks: (.*)', line)
            if m: res[cur]['failed'].append(m.group(1))
            m = re.match(r'\s*\*\* (\d+) of (\d+) cover properties satisfied', line)
            if m: res[cur]['cover'] = (int(m.group(1)), int(m.group(2)))
    mine = {k: v for k, v in res.items() if k.startswith(harness_prefix)}
    missing = [h for h in expect if h not in mine]
    if missing or r.returncode not in (0, 1) and not mine:
        rep.inconclusive.append('kani did not run harnesses %s (rc=%s): %s' % (missing, r.returncode, out[-600:]))
    failed = []
    for k, v in mine.items():
        rep.states += 1; rep.transitions += max(v['checks'], 1); rep.obligations += max(v['checks'], 1)
        if v['status'] == 'ok':
            rep.discharged += max(v['checks'], 1)
            if v['cover'] and v['cover'][0] < v['cover'][1]: rep.inconclusive.append('kani harness %s: reachability witness (cover) not satisfied' % k)
        elif v['status'] == 'failed': failed.append((k, v['failed']))
        else: rep.inconclusive.append('kani harness %s: no verdict (timeout / out of memory?)' % k)
    rep.extra.setdefault('kani', {})[harness_prefix] = {'harnesses': mine, 'wall_s': round(wall, 1), 'version': 'kani 0.68 / CBMC 6.11, cadical'}
    return failed


NAT = None


def native_degree(kind, opname, ranks):
    """replay through the real compiled code: vr_structure degree ..."""
    global NAT
    if NAT is None: NAT = common.Native(common.build_replay('vr_structure'))
    return NAT.ask('degree %s %s %s' % (kind, opname, ' '.join(map(str, ranks))))


def main(tier, replay=None):
    rep = common.Report('C07', tier)
    if replay:
        d = json.load(open(replay))
        if d.get('kind') == 'programs':
            bad, got, exp = confirm_program(d.get('tier', tier), d['task']['t'], d['violation'])
            print('replay: the natively compiled pipeline makes the claim: observed=%s expected=%s -> %s' % (got, exp, 'VIOLATION' if bad else 'holds')); return 1 if bad else 0
        got = native_degree(d['kind'], d['op'], d['ranks'])
        bad = int(got.split()[-1]) < d['need'] if got and got.split()[-1].isdigit() else True
        print('replay: observed %s, least sound bound %s -> %s' % (got, d['need'], 'VIOLATION' if bad else 'holds'))
        return 1 if bad else 0
    known = common.load_known('C07')
    # translator validation: the complete native table of the 23 transfer functions (compiled code) against the
    # reference bound; any cell below the bound must also be reported by the solver-based parts below
    native_bad = []
    for fn in INFIX_FNS:
        for x in range(4):
            for y in range(4):
                got = native_degree('infix', fn, [x, y]); rep.validated += 1
                if not got.isdigit() or int(got) < simp(ref_infix(KIND_OF.get(fn, 'Other'), z3.IntVal(x), z3.IntVal(y))): native_bad.append((fn, x, y, got))
    for fn in PREFIX_FNS:
        for x in range(4):
            got = native_degree('prefix', fn, [x]); rep.validated += 1
            if not got.isdigit() or int(got) < simp(ref_prefix(KIND_OF.get(fn, 'Other'), z3.IntVal(x))): native_bad.append((fn, x, None, got))
    rep.extra['native_table_cells_below_bound'] = native_bad
    # K1: Kani
    failed = run_kani('degree::', rep, KANI_HARNESSES)
    pr = prog()
    seen = {}
    # exhaustive native confirmation of any Kani failure: find the failing cell by running the real code
    for hname, why in failed:
        cell = find_failing_cell(hname)
        rep.validated += cell['tried'] if cell else 0
        if not cell:
            rep.inconclusive.append('kani harness %s failed (%s) but no native cell reproduces it' % (hname, why)); continue
        role = {'function': cell['fn'], 'kind': 'degree-sound', 'class': 'kani:' + hname.split('::')[-1]}
        k = common.match_known(known, role)
        desc = '%s(%s) = rank %s but the least sound bound is %s' % (cell['fn'], cell['ranks'], cell['got'], cell['need'])
        if k: rep.known_hits.append('%s (%s)' % (k['id'], desc))
        elif json.dumps(role) not in seen:
            seen[json.dumps(role)] = 1
            rep.violations.append(rep.save_replay(role, {'property': 'C07', 'kind': cell['kind'], 'op': cell['op'], 'ranks': cell['ranks'], 'need': cell['need'], 'observed': cell['got']}))
            common.log('VIOLATION detail:', desc)
    # K2 / X: mirsym
    ts = tasks(tier)
    results = common.run_tasks('specs.C07', ts)
    for r in results:
        if 'error' in r:
            rep.inconclusive.append('task %s: %s' % (r['task'], r['error'][:400])); continue
        rep.add_stats(r['stats'])
        for v in r['violations']:
            t = r['task']; m = v['model']
            conf = None
            if t['kind'] in ('infix', 'prefix'):
                names = v['extra'].get('variants', [])
                opn = names[m['op']] if 0 <= m.get('op', -1) < len(names) else '?'
                if t['kind'] == 'infix':
                    ranks = [m['a0'], m['a1'], m['b0'], m['b1']]; need = simp(ref_infix(opn, z3.IntVal(m['x']), z3.IntVal(m['y'])))
                else:
                    ranks = [m['a0'], m['a1']]; need = simp(ref_prefix(opn, z3.IntVal(m['x'])))
                got = native_degree('dispatch_' + t['kind'], opn, ranks); rep.validated += 1
                end = int(got.split()[-1]) if got.split() and got.split()[-1].lstrip('-').isdigit() else None
                conf = got.startswith('PANIC') or (end is not None and end >= 0 and end < need)
                role = {'function': 'propagate_degrees/' + opn, 'kind': v['kind'], 'class': t['kind']}
                desc = '%s %s ranges %s: claimed end %s, least sound bound %s (x=%s y=%s)' % (t['kind'], opn, ranks, got, need, m.get('x'), m.get('y'))
                data = {'property': 'C07', 'kind': 'dispatch_' + t['kind'], 'op': opn, 'ranks': ranks, 'need': need, 'observed': got}
            elif t['kind'] == 'programs':
                import re as _re
                conf, got, exp = confirm_program(tier, t['t'], v); rep.validated += 1
                role = {'function': 'Cfg::propagate_degrees (whole program)', 'kind': v['kind'], 'class': (_re.search(r'the (\w+) node', v['msg']) or [None, 'any'])[1]}
                desc = '%s native: %s' % (v['msg'], got)
                data = {'property': 'C07', 'kind': 'programs', 'task': t, 'violation': v, 'tier': tier, 'observed': got}
                if conf is None: conf = True
            else:
                from . import irrules
                conf, role, desc, data = irrules.confirm_degree(v, t, rep)
            if not conf:
                rep.nonrepro.append({'task': t, 'violation': v, 'desc': desc}); continue
            key = json.dumps(role, sort_keys=True)
            if key in seen: continue
            seen[key] = 1
            k = common.match_known(known, role)
            if k: rep.known_hits.append('%s (%s)' % (k['id'], desc[:200]))
            else:
                rep.violations.append(rep.save_replay(role, data)); common.log('VIOLATION detail:', desc)
    if rep.nonrepro and not rep.violations:
        rep.inconclusive.append('%d solver models did not reproduce natively, e.g. %s' % (len(rep.nonrepro), json.dumps(rep.nonrepro[0], default=str)[:300]))
    if native_bad and not rep.violations and not rep.known_hits:
        rep.inconclusive.append('native table has cells below the reference bound that no solver-based part reported: %s' % native_bad[:3])
    if NAT: NAT.close()
    rep.bounds = {'degrees': 'all 4 degrees, all ranges, all 20 infix + 3 prefix opcodes (finite space, covered completely by the solver)', 'kani_unwind': 'none needed (loop-free)'}
    rep.assumptions = ['reference = least sound bound: +,- max; * sum capped; / by constant keeps degree; unary - identity; everything else constant iff all operands constant',
                       'source hash ' + pr.hashes['structure']]
    from . import C09
    rep.bounds['programs'] = 'the %d structured template programs over an input signal t (<= %d free statements; copies, sums and products of B, C and t; conditions on the parameter): every expression node with a degree bound, every dynamic instance, paths with <= %d iterations per loop' % (len(C09.family_deg(tier)), 3 if tier == 'quick' else 4, C09.UNROLL)
    rep.outside = ['arrays and calls inside whole programs (the array rules have open findings, see known_findings.json)', 'programs with more statements']
    rep.extra['exhaustive'] = True
    return rep.finish()


INFIX_FNS = ['add', 'infix_sub', 'mul', 'div', 'pow', 'int_div', 'modulo', 'shift_left', 'shift_right', 'lesser', 'greater', 'lesser_eq', 'greater_eq',
             'equal', 'not_equal', 'bit_or', 'bit_and', 'bit_xor', 'bool_or', 'bool_and']
PREFIX_FNS = ['prefix_sub', 'complement', 'bool_not']
KIND_OF = {'add': 'Add', 'infix_sub': 'Sub', 'mul': 'Mul', 'div': 'Div', 'prefix_sub': 'Sub'}


def find_failing_cell(hname):
    """Kani reported a failure: locate a concrete failing input by running the real functions
    natively over the (finite) table; this is the replay of the solver's verdict."""
    tried = 0
    if 'order' in hname or 'predicates' in hname:
        got = native_degree('selfcheck', 'order', [])
        return {'fn': 'Degree::cmp/DegreeRange predicates', 'kind': 'selfcheck', 'op': 'order', 'ranks': [], 'got': got, 'need': 'OK', 'tried': 1} if got != 'OK' else None
    prefix = 'prefix' in hname
    for fn in (PREFIX_FNS if prefix else INFIX_FNS):
        kind = KIND_OF.get(fn, 'Other')
        for x in range(4):
            for y in ([0] if prefix else range(4)):
                got = native_degree('prefix' if prefix else 'infix', fn, [x] if prefix else [x, y]); tried += 1
                need = simp(ref_prefix(kind, z3.IntVal(x))) if prefix else simp(ref_infix(kind, z3.IntVal(x), z3.IntVal(y)))
                try: g = int(got)
                except ValueError: g = -1
                if g < need:
                    return {'fn': 'Degree::' + fn, 'kind': 'prefix' if prefix else 'infix', 'op': fn, 'ranks': [x] if prefix else [x, y], 'got': got, 'need': need, 'tried': tried}
    return None
