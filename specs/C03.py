"""C03 — report conservation and output contract;  C02 (shared kernel) — no silent failure.

K1 (Kani): MessageCategory order = severity order (kani/src/message.rs).
X2 (mirsym): the real `main` of the cli crate executed from MIR together with the real
   CachedStdoutWriter / StdoutWriter / SarifWriter code.  Stubbed: argument parsing (arbitrary options),
   the analysis runner (offers arbitrary reports to the writer in three batches: parser, functions,
   templates), terminal rendering (records what is emitted), SARIF serialisation (records what it gets).
   Decided for every option combination and every report shape within the bound:
     displayed  <=>  level >= --level  and  id not in --allow  and  not (located solely in included files)
     exit status 0 <=> nothing displayed;  summary line matches the count;
     the SARIF writer receives exactly the displayed reports.
X1 (mirsym): the real AnalysisRunner with stubbed CFG generation and passes (see runner harness below).
"""
import os, sys, re, json, itertools
import z3
from . import common
from mirsym.program import Program
from mirsym.engine import Harness, explore, Stats, Unsupported, PathEnd
from mirsym.values import *
from mirsym import models, models_coll
from mirsym.models import some, none, ok, err
from mirsym.models_coll import BitSetV, bitset_stubs, MapV
from .irbuild import IR

_prog = None
SEV = {'Info': 0, 'Warning': 1, 'Error': 2}
NFILES = 3
CODES = ['ParseFail', 'ShadowingVariable', 'SignalAssignmentStatement', 'FieldElementComparison']
IDS = {'ParseFail': 'P1000', 'ShadowingVariable': 'CS0001', 'SignalAssignmentStatement': 'CS0005', 'FieldElementComparison': 'CS0003'}
REAL_CATEGORY = {'ParseFail': 'Error', 'ShadowingVariable': 'Warning', 'SignalAssignmentStatement': 'Warning', 'FieldElementComparison': 'Info'}
ALLOW_LISTS = [[], ['CS0001'], ['P1000', 'junk'], ['CS0005', 'CS0001']]


def prog():
    global _prog
    if _prog is None: _prog = Program(['structure', 'parser', 'analysis', 'cli'])
    return _prog


def cat_discr(pr):
    return {n: d for n, d, _ in pr.defs.enum_variants('MessageCategory')}


def tasks(tier, prop='C03'):
    ts = []
    nrep = 2 if tier == 'quick' else 3
    for allow in range(len(ALLOW_LISTS)):
        for sarif in (False, True):
            for codes in itertools.product(range(len(CODES)), repeat=nrep):
                # the order in which equal reports are offered is C17's subject (equal-code tasks there); here codes are taken in ascending order
                if sorted(codes) != list(codes): continue
                ts.append({'kind': 'main', 'allow': allow, 'sarif': sarif, 'codes': list(codes), 'prop': prop})
    for k in RUNNER_SHAPES(tier): ts.append(dict(k, prop=prop))
    if prop == 'C03':
        from . import sarif_h
        ts += sarif_h.tasks(tier)
    return ts


def RUNNER_SHAPES(tier):
    try:
        from . import runner_h
        return runner_h.shapes(tier)
    except ImportError:
        return []


class Rec:
    """what the stubs observed on one path"""
    def __init__(self): self.emitted = []; self.messages = []; self.sarif = None; self.sarif_calls = 0; self.offered = []


def mk_report(ir, idx, cat_term, code, nids, id_terms, rng=None):
    msg = StrV.of('r%d' % idx)
    # codespan Label<FileID> { style, file_id, range, message }: positional fields (external crate, not in the struct table)
    lab = lambda i: Struct('Label', [Opaque('style'), id_terms[i], Struct('ops::Range', [rng[0], rng[1]]) if rng else Opaque('range'), StrV.of('l%d' % i)])
    return ir.S('Report', category=Enum('MessageCategory', cat_term), message=msg,
                primary_file_ids=VecV(list(id_terms[:nids])), primary=VecV([lab(i) for i in range(nids)]),
                secondary=VecV([]), notes=VecV([]), code=Enum('ReportCode', code))


def run_task(task):
    pr = prog()
    if task['kind'] == 'orders':
        from . import C09
        return C09.run_task(task['t'])
    if task['kind'] == 'sarif':
        from . import sarif_h
        return sarif_h.run_task(pr, task)
    if task['kind'] == 'runner':
        from . import runner_h
        return runner_h.run_task(pr, task)
    ir = IR(pr)
    h = Harness(pr, 'cli')
    bitset_stubs(h, NFILES)
    disc = cat_discr(pr)
    lo, hi = min(disc.values()), max(disc.values())
    sev_of = lambda t: z3.If(t == disc['Info'], 0, z3.If(t == disc['Warning'], 1, 2))
    codes = [CODES[i] for i in task['codes']]
    n = len(codes)
    level = z3.Int('level'); verbose = z3.Bool('verbose'); ser_ok = z3.Bool('serialize_ok')
    cats = [z3.Int('cat%d' % i) for i in range(n)]
    nids = [z3.Int('nids%d' % i) for i in range(n)]
    fid = [[z3.Int('fid%d_%d' % (i, j)) for j in range(2)] for i in range(n)]
    user = [z3.Bool('user%d' % i) for i in range(NFILES)]
    rlo = [z3.Int('range%d' % i) for i in range(n)]          # byte offset of the primary labels of report i (two findings may share it)
    h.inputs = dict([('range%d' % i, r) for i, r in enumerate(rlo)] + [('level', level), ('verbose', verbose), ('serialize_ok', ser_ok)] + [('cat%d' % i, c) for i, c in enumerate(cats)] +
                    [('nids%d' % i, c) for i, c in enumerate(nids)] + [('fid%d_%d' % (i, j), fid[i][j]) for i in range(n) for j in range(2)] +
                    [('user%d' % i, u) for i, u in enumerate(user)])
    base = [level >= lo, level <= hi] + [z3.And(c >= lo, c <= hi) for c in cats] + [z3.And(k >= 0, k <= 2) for k in nids]
    base += [z3.And(f >= 0, f < NFILES) for fs in fid for f in fs] + [z3.And(r >= 0, r <= 1) for r in rlo]
    allow = ALLOW_LISTS[task['allow']]
    rec_holder = {}

    def R(p, f): h.stub_res.append((re.compile(p), f))

    def fresh(ex):
        rec = Rec(); rec_holder['rec'] = rec; ex.notes['rec'] = rec
        return rec

    # --- environment stubs
    R(r'pretty_env_logger::init', lambda ex, a, m: UNIT)

    def cli_parse(ex, a, m):
        rec = fresh(ex)
        return ir.S('Cli', input_files=VecV([Opaque('path', 'in.circom')]), libraries=VecV([]), output_level=Enum('MessageCategory', level),
                    sarif_file=some(Opaque('path', 'out.sarif')) if task['sarif'] else none(), allow_list=VecV([StrV.of(s) for s in allow]),
                    verbose=verbose, curve=Enum('Curve', 'Bn254'))
    R(r'<Cli as (?:clap::)?Parser>::parse', cli_parse)
    R(r'AnalysisRunner::new', lambda ex, a, m: Opaque('runner'))
    R(r'AnalysisRunner::with_libraries', lambda ex, a, m: a[0])

    def with_files(ex, a, m):
        ks = [ex.concretize(k, 0, 2) for k in nids]
        reps = [mk_report(ir, i, cats[i], codes[i], ks[i], fid[i], (rlo[i], rlo[i] + 1)) for i in range(n)]
        ex.notes['reports'] = reps; ex.notes['nids'] = ks
        batch = reps[:1]
        ex.notes['rec'].offered += batch
        return Struct('()', [a[0], VecV([clone_val(r) for r in batch])])
    R(r'AnalysisRunner::with_files', with_files)
    R(r'AnalysisRunner::file_library', lambda ex, a, m: Ref([Opaque('filelib')], 0))
    R(r'(?:file_definition::)?FileLibrary::user_inputs', lambda ex, a, m: Ref([BitSetV(NFILES, user)], 0))
    R(r'<(?:std::path::)?PathBuf as (?:std::ops::)?Deref>::deref', lambda ex, a, m: a[0])
    R(r'(?:std::path::)?Path::display', lambda ex, a, m: Opaque('display'))
    R(r'(?:std::path::)?Path::to_owned|<(?:std::path::)?Path as ToOwned>::to_owned', lambda ex, a, m: deref(a[0]))
    R(r'<(?:std::path::)?PathBuf as Default>::default', lambda ex, a, m: Opaque('path', ''))
    R(r'(?:atty::)?is', lambda ex, a, m: False)
    R(r'(?:termcolor::)?StandardStream::stdout', lambda ex, a, m: Opaque('stdout'))
    R(r'(?:termcolor::)?StandardStream::lock', lambda ex, a, m: Opaque('lock'))
    R(r'<codespan_reporting::term::Config as Default>::default', lambda ex, a, m: Blob('termconfig'))
    R(r'(?:termcolor::)?ColorSpec::set_intense', lambda ex, a, m: a[0])
    R(r'(?:file_definition::)?FileLibrary::to_storage', lambda ex, a, m: Opaque('storage'))

    def to_diag(ex, a, m):
        r = deref(a[0]); return Opaque('diag', ir.get(r, 'message').concrete())
    R(r'(?:program_library::report::)?Report::to_diagnostic', to_diag)

    def emit(ex, a, m):
        d = deref(a[3]) if len(a) > 3 else deref(a[-1])
        ex.notes['rec'].emitted.append(d.data)
        return ok(UNIT)
    R(r'(?:codespan_reporting::term::)?emit::<.*>', emit)

    def analyze(ex, a, m, which=None):
        # the runner offers one more batch to the writer, through the real ReportWriter impl
        reps = ex.notes['reports']
        batch = reps[1:2] if 'functions' in m.group(0) else reps[2:3]
        if batch:
            ex.notes['rec'].offered += batch
            wr = pr.method('ReportWriter', 'CachedStdoutWriter', 'write_reports')
            vec = VecV([clone_val(r) for r in batch])
            ex.call_mir(wr, [a[1], SliceV(vec, 0, len(batch)), Ref([Opaque('filelib')], 0)])
        return UNIT
    R(r'AnalysisRunner::analyze_(functions|templates)::<.*>', analyze)

    def serialize(ex, a, m):
        rec = ex.notes['rec']; rec.sarif_calls += 1
        reps = deref(a[1])
        rec.sarif = [ir.get(r, 'message').concrete() for r in reps.items]
        if ex.decide(ser_ok): return ok(UNIT)
        return err(Opaque('anyhow'))
    R(r'SarifWriter::serialize_reports', serialize)

    def write_message(ex, a, m):
        v = deref(a[1])
        while isinstance(v, Ref): v = deref(v)
        ex.notes['rec'].messages.append(v.concrete() if isinstance(v, StrV) else v)
        return UNIT
    R(r'<CachedStdoutWriter as LogWriter>::write_message::<.*>', write_message)

    stats = Stats()
    main = pr.crates['cli']['main']

    # a counterexample is replayed against the real binary: prefer models that a real project can realise
    # (some user file; error level <=> parse error id, warning level <=> analysis finding id; located reports)
    realizable = z3.And(z3.Or(*user), *[cats[i] == disc[REAL_CATEGORY[codes[i]]] for i in range(n)])

    def post(ex, res):
        rec = ex.notes.get('rec')
        if rec is None: raise Unsupported('main did not parse options')
        reps = ex.notes['reports']; ks = ex.notes['nids']
        # oracle, decided by the solver under the path condition
        want = []
        for i in range(n):
            sev_ok = simp(sev_of(cats[i]) >= sev_of(level))
            in_user = b_or(*[b_and(fid[i][j] == f, user[f]) for j in range(ks[i]) for f in range(NFILES)]) if ks[i] else True
            allowed = IDS[codes[i]] in allow
            c = simp(b_and(sev_ok, in_user, not allowed))
            shown = ('r%d' % i) in rec.emitted
            ex.oblige(simp(eq(zbool(c) if is_sym(c) else c, shown)) if is_sym(c) else (c == shown), 'filter-law',
                      'report r%d (%s): displayed iff level >= --level, id not allowed, not located solely in included files' % (i, codes[i]),
                      extra={'report': i, 'shown': shown}, prefer=realizable)
            if shown: want.append('r%d' % i)
        ex.oblige(rec.emitted == want, 'exactly-once', 'every displayed report is displayed exactly once, in the order offered (got %s)' % rec.emitted, prefer=realizable)
        ndisp = len(rec.emitted)
        code = res.name if isinstance(res, FnItem) else repr(res)
        ex.oblige(('SUCCESS' in code) == (ndisp == 0) and ('SUCCESS' in code or 'FAILURE' in code), 'exit-status', 'exit status 0 iff nothing was displayed (displayed %d, exit %s)' % (ndisp, code))
        last = rec.messages[-1] if rec.messages else None
        if ndisp == 0: okm = last == 'No issues found.'
        elif ndisp == 1: okm = last == '1 issue found.'
        else:
            okm = False
            if isinstance(last, Opaque) and last.tag == 'formatted' and last.data:
                tmpl, fargs = last.data
                val = fargs[0] if fargs else None
                if isinstance(val, Opaque): val = val.data
                if isinstance(val, tuple): val = val[0]
                val = deref(val) if val is not None else None
                okm = tmpl is not None and b' issues found.' in tmpl and simp(eq(val, ndisp)) is True
        ex.oblige(okm, 'summary', 'summary line states the number of displayed diagnostics (%d), got %r' % (ndisp, last))
        if task['sarif']:
            ex.oblige(rec.sarif_calls == 1 and rec.sarif == rec.emitted, 'sarif-set', 'the SARIF file holds exactly the displayed findings (sarif %s, displayed %s)' % (rec.sarif, rec.emitted), prefer=realizable)
        else:
            ex.oblige(rec.sarif_calls == 0, 'sarif-set', 'no SARIF output unless requested')

    st, vs, inc = explore(h, main, lambda ex: [], post=post, base=base, stats=stats, seed=common.seed())
    return {'stats': common.pack_stats(stats), 'violations': [common.pack_violation(v) for v in vs]}


# ----------------------------------------------------------------------------- Kani part + driver
def main(tier, replay=None, prop='C03'):
    rep = common.Report(prop, tier)
    if replay:
        d = json.load(open(replay))
        if d['scenario'].get('kind') == 'sarif':
            from . import sarif_h
            r = sarif_h.run_task(prog(), d['scenario']['task']); bad = bool(r['violations'])
            for v in r['violations'][:2]: print('replay (re-execution of the conversion from the current MIR):', v['msg'][:200], v['model'])
            print('replay: -> %s' % ('VIOLATION' if bad else 'holds')); return 1 if bad else 0
        if d['scenario'].get('kind') == 'orders':
            t = dict(d['scenario']['task']['t']); sh = d['violation']['model'].get('shape', 0); t.update(lo=sh, hi=sh + 1)
            from . import C09
            r = C09.run_task(t); bad = bool(r['violations'])
            print('replay (re-execution of program %d under the three iteration orders): -> %s' % (sh, 'VIOLATION' if bad else 'holds')); return 1 if bad else 0
        bad, got, exp = confirm(d['scenario'])
        print('replay: observed=%s expected=%s -> %s' % (got, exp, 'VIOLATION' if bad else 'holds'))
        return 1 if bad else 0
    known = common.load_known(prop); seen = {}
    if prop == 'C03':
        from .C07 import run_kani
        failed = run_kani('message::', rep, ['message::category_order_is_severity_order'])
        for hname, why in failed:
            sc = {'kind': 'order'}
            bad, got, exp = confirm(sc); rep.validated += 1
            role = {'function': 'MessageCategory::cmp', 'kind': 'order', 'class': 'any'}
            if bad and not common.match_known(known, role):
                rep.violations.append(rep.save_replay(role, {'property': prop, 'scenario': sc, 'observed': got, 'expected': exp}))
            elif not bad: rep.inconclusive.append('kani harness %s failed (%s) but the native order check passes' % (hname, why))
    # translator validation: two fixed scenarios through the real binary
    for sc in (SELFTEST_SCENARIOS if prop == 'C03' else (RUNNER_SELFTEST if prop == 'C17' else SELFTEST_SCENARIOS[:2])):
        bad, got, exp = confirm(sc); rep.validated += 1
        if bad: rep.inconclusive.append('fixed scenario %s: real binary %s, oracle %s' % (sc, got, exp))
    ts = [t for t in tasks(tier, prop)]
    results = common.run_tasks('specs.C03', ts)
    for r in results:
        if 'error' in r:
            rep.inconclusive.append('task %s: %s' % (r['task'], r['error'][:500])); continue
        rep.add_stats(r['stats'])
        for v in r['violations']:
            t = r['task']
            if t['kind'] in ('orders', 'sarif'):
                role = {'function': 'analysis passes' if t['t'].get('mode') == 'passes' else 'run_side_effect_analysis', 'kind': v['kind'], 'class': 'hash-order'} if t['kind'] == 'orders' else {'function': 'Report::to_sarif', 'kind': v['kind'], 'class': 'any'}
                key = json.dumps(role, sort_keys=True)
                if key in seen: continue
                seen[key] = 1
                k = common.match_known(known, role)
                if k: rep.known_hits.append('%s (%s)' % (k['id'], v['msg'][:200]))
                else:
                    rep.violations.append(rep.save_replay(role, {'property': prop, 'scenario': {'kind': t['kind'], 'task': t}, 'violation': v}))
                    common.log('VIOLATION detail:', v['msg'][:600])
                continue
            if t['kind'] == 'runner':
                from . import runner_h
                sc = runner_h.scenario_of(t, v)
            else:
                sc = scenario_of(t, v)
            if prop == 'C02' and not is_c02_violation(sc, v): continue
            bad, got, exp = confirm(sc); rep.validated += 1
            if not bad:
                rep.nonrepro.append({'scenario': sc, 'violation': v, 'observed': got, 'expected': exp}); continue
            role = role_of(sc, v, prop); key = json.dumps(role, sort_keys=True)
            if key in seen: continue
            seen[key] = 1
            k = common.match_known(known, role)
            desc = '%s: scenario %s observed=%s expected=%s' % (v['msg'][:160], json.dumps(sc)[:300], got, exp)
            if k: rep.known_hits.append('%s (%s)' % (k['id'], desc[:200]))
            else:
                rep.violations.append(rep.save_replay(role, {'property': prop, 'scenario': sc, 'observed': got, 'expected': exp, 'violation': v}))
                common.log('VIOLATION detail:', desc)
    if rep.nonrepro and not rep.violations:
        rep.inconclusive.append('%d solver models did not reproduce with the real binary, e.g. %s' % (len(rep.nonrepro), json.dumps(rep.nonrepro[0], default=str)[:500]))
    pr = prog()
    if prop == 'C17':
        rep.bounds = {'definitions': '%d definitions (templates, functions), every storage/analysis order, each in a user or an included file, 0-2 CFG-stage reports, lift succeeding or failing, each pass looking up any one definition or none' % (2 if tier == 'quick' else 3)}
        rep.stubs = ['generate_cfg (emits r fresh reports, then Ok or Err with one more)', 'get_analysis_passes (one pass: one fresh report + one symbolic look-up through AnalysisContext)', 'writer (records)', 'TemplateData/FunctionData::get_file_id', 'FileLibrary::is_user_input']
        rep.assumptions = ['HashMap<String,_> modelled as an association list whose iteration order is the harness-chosen permutation', 'source hash ' + pr.hashes['analysis']]
        rep.bounds['hash orders'] = 'the whole side-effect pass (taint, constraint analysis, branch regions) on the programs of C09 under four (thorough: six) iteration orders of every HashMap / HashSet (insertion, reverse, rotated, pseudo-random permutations): same multiset of claims; all twelve intra-procedural passes on the straight-line signal templates of C09.family_sig likewise: same multiset of reports'
        rep.outside = ['all other iteration orders and the other passes', 'SSA naming across runs', 'file order on the command line beyond the equal-code scenarios', 'unrelated extra definitions beyond the bound']
        return rep.finish()
    rep.bounds = {'reports': '<= %d reports offered to the writer in three batches (parser, functions, templates), each with symbolic level, 0-2 primary labels over %d files, id from %s' % (2 if tier == 'quick' else 3, NFILES, sorted(IDS.values())),
                  'options': 'every --level, every set of user-supplied files, --allow lists %s, SARIF on/off, verbose on/off, SARIF serialisation succeeding or failing' % ALLOW_LISTS}
    rep.stubs = ['Cli::parse (arbitrary options)', 'AnalysisRunner::{new,with_libraries,with_files,analyze_functions,analyze_templates,file_library} (offer arbitrary reports through the real ReportWriter impl)',
                 'FileLibrary::{user_inputs,to_storage}', 'Report::to_diagnostic + codespan term::emit (record the diagnostic)', 'SarifWriter::serialize_reports (records its argument)', 'LogWriter::write_message (records the text)', 'atty, termcolor, pretty_env_logger']
    rep.assumptions = ['hash-set of user file ids modelled as a bit set', 'source hash ' + '/'.join(pr.hashes[c] for c in ('cli', 'structure', 'analysis'))]
    rep.bounds['sarif'] = 'Report::to_sarif / ReportLabel::to_sarif / FileID::to_uri on a report with symbolic category, 0..2 primary and 0..2 secondary labels with symbolic files and offsets: level, ruleId, message, one (related) location per label with the uri and region of that label'
    rep.stubs.append('serde_sarif builders (generic record model: a setter stores its argument, build returns the record); FileLibrary storage: location(file, offset) as uninterpreted functions, file k named "f<k>"')
    rep.outside = ['codespan rendering and serde_sarif serialisation', 'what the passes find', 'the rules / tool section of the SARIF file']
    return rep.finish()


def is_c02_violation(sc, v):
    """C02 is the specialisation to error-level reports that end up not displayed / exit status 0."""
    if v['kind'] in ('exit-status', 'summary'): return True
    if v['kind'] == 'report-lost': return True
    if v['kind'] == 'filter-law':
        i = v['extra'].get('report')
        r = sc['reports'][i] if i is not None and i < len(sc.get('reports', [])) else None
        return bool(r) and r['category'] == 'Error' and not v['extra'].get('shown')
    return False


def role_of(sc, v, prop):
    cls = 'any'
    if v['kind'] == 'filter-law':
        i = v['extra'].get('report'); r = sc['reports'][i] if i is not None and i < len(sc.get('reports', [])) else None
        if r and not r['files']: cls = 'no-primary-location'
    if v['kind'] == 'report-lost': cls = v['extra'].get('class', 'cfg-stage')
    fn = 'filter_by_file' if cls == 'no-primary-location' else ('AnalysisRunner::analyze_*' if sc.get('kind') == 'runner' else 'main/writers')
    kind = v['kind']
    if prop == 'C02' and kind == 'filter-law': kind = 'error-dropped'
    return {'function': fn, 'kind': kind, 'class': cls}


def scenario_of(t, v):
    m = v['model']; pr = prog(); disc = {d: n for n, d in cat_discr(pr).items()}
    n = len(t['codes'])
    reps = []
    for i in range(n):
        k = m.get('nids%d' % i, 0)
        reps.append({'category': disc.get(m.get('cat%d' % i), 'Error'), 'code': CODES[t['codes'][i]], 'files': [m.get('fid%d_%d' % (i, j), 0) for j in range(k)]})
    return {'kind': 'main', 'level': disc.get(m.get('level'), 'Info'), 'user': [i for i in range(NFILES) if m.get('user%d' % i)], 'allow': ALLOW_LISTS[t['allow']],
            'sarif': t['sarif'], 'verbose': bool(m.get('verbose')), 'reports': reps}


SELFTEST_SCENARIOS = [
    {'kind': 'main', 'level': 'Info', 'user': [0], 'allow': [], 'sarif': False, 'verbose': False, 'reports': [{'category': 'Error', 'code': 'ParseFail', 'files': []}]},
    {'kind': 'main', 'level': 'Warning', 'user': [0], 'allow': ['CS0005'], 'sarif': True, 'verbose': False, 'reports': [{'category': 'Warning', 'code': 'SignalAssignmentStatement', 'files': [0]}, {'category': 'Warning', 'code': 'ShadowingVariable', 'files': [0]}]},
    {'kind': 'order'},
]


RUNNER_SELFTEST = [
    {'kind': 'runner', 'defkind': 'template', 'defs': [{'id': 0, 'user': True, 'fails': False, 'cfg_reports': 2, 'looks_up': 1}, {'id': 1, 'user': True, 'fails': True, 'cfg_reports': 1, 'looks_up': None}]},
    {'kind': 'runner', 'defkind': 'template', 'defs': [{'id': 1, 'user': True, 'fails': True, 'cfg_reports': 1, 'looks_up': None}, {'id': 0, 'user': True, 'fails': False, 'cfg_reports': 2, 'looks_up': 1}]},
    {'kind': 'runner', 'defkind': 'function', 'defs': [{'id': 0, 'user': True, 'fails': True, 'cfg_reports': 1, 'looks_up': None}, {'id': 1, 'user': False, 'fails': True, 'cfg_reports': 1, 'looks_up': None}]},
]


def confirm(sc):
    """replay a scenario against the real circomspect binary (real files, real options)."""
    from . import realbin
    return realbin.confirm(sc)
