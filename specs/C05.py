"""C05 — comments are transparent;  C04 (kernel) — locations produced by the stripper.

Engine: mirsym over the MIR of parser_logic::preprocess.  Input: a string of n symbolic
chars ranging over ALL Unicode scalar values (the stripper only distinguishes '/', '*', '\\n'
and the UTF-8 width, so the executor forks on exactly those classes).
"""
import sys, os, json, itertools
import z3
from . import common
from mirsym.program import Program
from mirsym.engine import Harness, explore, Stats, Unsupported
from mirsym.values import *
from mirsym import models
from oracles import comment_lexer as L

SRC = 'parser/src/parser_logic.rs'
_prog = None
FILE_ID = 7


def prog():
    global _prog
    if _prog is None: _prog = Program(['parser'])
    return _prog


def bounds(tier): return (6, 8) if tier == 'quick' else (8, 10)     # (all of Unicode, ASCII only)


CLASSES = ['/', '*', 'n', 'o']


def tasks(tier, prop='C05'):
    NU, NA = bounds(tier); ts = []
    for n in range(0, NA + 1):
        k = min(n, 2 if n <= 7 else 3)
        for pre in itertools.product(CLASSES, repeat=k):
            ts.append({'n': n, 'prefix': ''.join(pre), 'prop': prop, 'ascii': n > NU})
    ts.sort(key=lambda t: -t['n'])
    return ts


def class_constraint(c, k):
    if k == '/': return c == L.SL
    if k == '*': return c == L.ST
    if k == 'n': return c == L.NL
    return z3.And(c != L.SL, c != L.ST, c != L.NL)


def find_preprocess():
    fns = prog().crates['parser']
    hits = [f for n, f in fns.items() if n == 'preprocess' or n.endswith('parser_logic::preprocess')]
    if len(hits) != 1: raise Unsupported('preprocess: %d candidates in MIR' % len(hits))
    return hits[0]


def u8len(c): return z3.If(c < 0x80, 1, z3.If(c < 0x800, 2, z3.If(c < 0x10000, 3, 4)))


def run_task(task):
    if task.get('kind') == 'parsefile':
        from . import parsefile_h
        return parsefile_h.run_task(task)
    pr = prog(); n = task['n']; prop = task['prop']
    fn = find_preprocess()
    h = Harness(pr, 'parser')
    chars = [z3.Int('c%d' % i) for i in range(n)]
    h.inputs = {'c%d' % i: c for i, c in enumerate(chars)}
    h.step_budget = 400_000
    captured = {}

    def into_report(ex, args):
        e = args[0]
        captured['err'] = e
        return Opaque('report', e)
    h.stub_res.append((__import__('re').compile(r'(?:errors::)?UnclosedCommentError::into_report'), lambda ex, args, m: into_report(ex, args)))

    base = [z3.And(c >= 0, c <= 0x10FFFF, z3.Or(c < 0xD800, c > 0xDFFF)) for c in chars]
    base += [class_constraint(c, k) for c, k in zip(chars, task['prefix'])]
    if task.get('ascii'): base += [c < 0x80 for c in chars]

    def width(ex, c):
        if isinstance(c, int): return len(chr(c).encode('utf-8'))
        if ex.decide(c < 0x80): return 1
        if ex.decide(c < 0x800): return 2
        if ex.decide(c < 0x10000): return 3
        return 4

    def post(ex, res):
        if not isinstance(res, Enum) or res.var not in ('Ok', 'Err'): raise Unsupported('unexpected result ' + repr(res))
        com, unclosed, opener = L.lex_decide(ex, chars)
        if res.var == 'Ok':
            out = res.f[0]
            if not isinstance(out, StrV): raise Unsupported('Ok payload is not a String')
            A = out.chars; m = len(A)
            if prop == 'C05':
                ex.oblige(not unclosed, 'unclosed-accepted', 'an unclosed block comment must be reported, not returned as Ok')
            if prop == 'C05' or (prop == 'C04' and not unclosed):
                # (C04: positions computed on the stripped text are positions in the original file only if every
                #  code character keeps its byte offset and the total byte length is unchanged)
                k = 0
                for i in range(n):
                    if com[i]:
                        w = width(ex, chars[i])
                        for j in range(w):
                            a = A[k + j] if k + j < m else None
                            okc = False if a is None else simp(z3.Or(zint(a) == 32, z3.And(zint(a) == 10, zint(chars[i]) == 10)))
                            ex.oblige(okc, 'transparent', 'char %d (comment text) is blanked byte for byte' % i)
                        k += w
                    else:
                        a = A[k] if k < m else None
                        ex.oblige(False if a is None else simp(eq(a, chars[i])), 'transparent', 'char %d (code) is kept at its byte offset' % i)
                        k += 1
                ex.oblige(k == m, 'length', 'output has the byte length of the input')
        else:
            e = captured.get('err')
            if prop == 'C05':
                ex.oblige(unclosed, 'spurious-error', 'an error is returned only for an unclosed block comment')
            else:
                if e is None or not isinstance(e, Struct): raise Unsupported('UnclosedCommentError not captured')
                rng, fid = e.f[0], e.f[1]
                s, t = rng.f[0], rng.f[1]
                ws = [width(ex, c) for c in chars]
                offs = [sum(ws[:i]) for i in range(n + 1)]
                ex.oblige(simp(eq(fid, FILE_ID)), 'file', 'label names the file that was read')
                ex.oblige(simp(z3.And(zint(s) <= zint(t), zint(t) <= offs[n])), 'range', 'label range lies inside the file, start <= end')
                if opener is not None:
                    ex.oblige(simp(eq(s, offs[opener])), 'anchor', 'label starts at the byte offset of the `/*` that is never closed')
                ex.oblige(simp(z3.Or(*[zint(t) == o for o in offs])), 'boundary', 'label end falls on a character boundary')

    stats = Stats()
    st, vs, inc = explore(h, fn, lambda ex: [StrV(chars), FILE_ID], post=post, base=base, stats=stats, seed=common.seed())
    return {'stats': common.pack_stats(stats), 'violations': [common.pack_violation(v) for v in vs]}


# ----------------------------------------------------------------------------- replay
def model_text(m, n):
    return ''.join(chr(m.get('c%d' % i, 97)) for i in range(n))


def native_check(nat, text, prop):
    """-> (violated?, observed, expected)"""
    got = nat.ask('pp ' + text.encode('utf-8').hex())
    chars = [ord(c) for c in text]
    com, unclosed, opener = L.lex_concrete(chars)
    if got.startswith('PANIC') or got.startswith('TIMEOUT') or got.startswith('ABORT'): return True, got, 'no panic'
    if prop == 'C05':
        if unclosed: return (not got.startswith('Err')), got, 'Err (unclosed block comment)'
        if got.startswith('Err'): return True, got, 'Ok'
        out = bytes.fromhex(got[3:]) if len(got) > 3 else b''
        exp = bytearray(); alt = bytearray()
        for c, k in zip(chars, com):
            b = chr(c).encode('utf-8')
            if k: exp += b' ' * len(b); alt += (b if c == 10 else b' ' * len(b))
            else: exp += b; alt += b
        ok = len(out) == len(exp) and all(o == e or o == a for o, e, a in zip(out, exp, alt))
        return (not ok), got, 'Ok ' + bytes(exp).hex()
    else:
        if not got.startswith('Err'):
            if unclosed: return False, got, '(unclosed comment accepted: reported under C05)'
            return native_check(nat, text, 'C05')
        _, s, t, fid, cat = got.split(' ')
        if s == '-': return True, got, 'a primary label'
        s = int(s); t = int(t)
        offs = [0]
        for c in chars: offs.append(offs[-1] + len(chr(c).encode('utf-8')))
        want = offs[opener] if opener is not None else None
        ok = s <= t <= offs[-1] and t in offs and (want is None or s == want) and int(fid) == FILE_ID
        return (not ok), got, 'Err %s..(%s or later, on a char boundary) file %d' % (want, want, FILE_ID)


def role_of(v, text, prop):
    chars = [ord(c) for c in text]
    com, unclosed, opener = L.lex_concrete(chars)
    if prop == 'C05':
        if v['kind'] == 'unclosed-accepted': return {'function': 'preprocess', 'kind': 'unclosed-accepted', 'class': 'ends-with-star' if text.endswith('*') else 'open-at-eof'}
        if unclosed is False and '**/' in text: return {'function': 'preprocess', 'kind': v['kind'], 'class': 'closer-after-star-run'}
        return {'function': 'preprocess', 'kind': v['kind'], 'class': 'other'}
    if v['kind'] in ('length', 'transparent'): return {'function': 'preprocess', 'kind': v['kind'], 'class': 'offsets-shifted'}
    return {'function': 'preprocess', 'kind': v['kind'], 'class': 'unclosed-label'}


def main(tier, replay=None, prop='C05'):
    rep = common.Report(prop, tier)
    binary = common.build_replay('vr_parser')
    nat = common.Native(binary)
    if replay and json.load(open(replay)).get('parsefile'):
        from . import parsefile_h
        d = json.load(open(replay)); r = parsefile_h.run_task(d['parsefile']); bad = bool(r['violations'])
        for v in r['violations'][:2]: print('replay (re-execution of parse_file from the current MIR):', v['msg'][:200], v['model'])
        print('replay: -> %s' % ('VIOLATION' if bad else 'holds')); return 1 if bad else 0
    if replay:
        d = json.load(open(replay))
        bad, got, exp = native_check(nat, d['text'], prop)
        print('replay %r: observed=%s expected=%s -> %s' % (d['text'], got, exp, 'VIOLATION' if bad else 'holds'))
        return 1 if bad else 0
    # translator validation: concrete strings (incl. the repo's own test inputs) through engine and native code
    rep.validated += selftest(nat, rep)
    ts = tasks(tier, prop)
    if prop == 'C04':
        from . import parsefile_h
        ts = ts + parsefile_h.tasks(tier)
    results = common.run_tasks('specs.C05', ts)
    known = common.load_known(prop); seen = {}
    for r in results:
        if 'error' in r:
            rep.inconclusive.append('task %s: %s' % (r['task'], r['error'][:300])); continue
        rep.add_stats(r['stats'])
        for v in r['violations']:
            text = model_text(v['model'], r['task']['n'])
            if r['task'].get('kind') == 'parsefile':
                role = {'function': 'parser_logic::parse_file', 'kind': v['kind'], 'class': str((v.get('extra') or {}).get('outcome'))}; key = json.dumps(role, sort_keys=True)
                if key in seen: continue
                seen[key] = 1
                k = common.match_known(known, role)
                desc = '%s on the source text %r (parser outcome %s, model %s)' % (v['msg'], text, role['class'], v['model'])
                if k: rep.known_hits.append('%s (%s)' % (k['id'], desc[:200]))
                else:
                    rep.violations.append(rep.save_replay(role, {'property': prop, 'parsefile': r['task'], 'text': text, 'violation': v})); common.log('VIOLATION detail:', desc)
                continue
            bad, got, exp = native_check(nat, text, prop); rep.validated += 1
            if not bad:
                rep.nonrepro.append({'text': text, 'violation': v, 'observed': got}); continue
            role = role_of(v, text, prop); key = json.dumps(role, sort_keys=True)
            if key in seen: continue
            seen[key] = 1
            k = common.match_known(known, role)
            desc = '%s on %r: observed=%s expected=%s' % (v['msg'], text, got, exp)
            if k: rep.known_hits.append('%s (%s)' % (k['id'], desc[:200]))
            else:
                rep.violations.append(rep.save_replay(role, {'property': prop, 'text': text, 'observed': got, 'expected': exp, 'violation': v}))
                common.log('VIOLATION detail:', desc)
    if rep.nonrepro and not rep.violations:
        rep.inconclusive.append('%d solver models did not reproduce natively, e.g. %s' % (len(rep.nonrepro), json.dumps(rep.nonrepro[0], default=str)[:300]))
    nat.close()
    pr = prog()
    NU, NA = bounds(tier); N = NA
    rep.bounds = {'text_length_chars': '0..%d over every Unicode scalar value (symbolic chars; classes / * \\n other x UTF-8 width 1-4); %d..%d over all 128 ASCII characters' % (NU, NU + 1, NA), 'tasks': len(ts)}
    rep.assumptions = ['input is valid UTF-8 (a Rust &str)', 'UnclosedCommentError::into_report stubbed (its argument is captured and checked)', 'library models: ' + ', '.join(sorted(rep.models_used))[:400],
                       'source hash ' + pr.hashes['parser']]
    rep.outside = ['texts longer than %d chars' % N, 'what the LALRPOP grammar does with the stripped text']
    if prop == 'C04':
        rep.bounds['parse_file'] = 'parser_logic::parse_file around a stubbed parser: every comment-free source of <= %d code points (all of Unicode, byte order mark included), every parser outcome (Ok, InvalidToken, UnrecognizedToken, ExtraToken, UnrecognizedEOF, User) with every span on character boundaries' % (3 if tier == 'quick' else 4)
        rep.assumptions.append('the contract of the generated parser: error locations are byte offsets on character boundaries of the text it was given')
    if prop == 'C05':
        rep.extra['corollary'] = ('out == reference blanking of F, and blank(F) contains no comment, so preprocess(blank(F)) == blank(F) == preprocess(F) up to '
                                  'newline-vs-blank inside block comments: the grammar sees the same token stream at the same offsets')
    rep.extra['source'] = {SRC: pr.hashes['parser']}
    return rep.finish()


def selftest(nat, rep):
    pr = prog(); fn = find_preprocess(); n = 0
    texts = ['', 'a', '/', '//', '/*', '/**/', '/***/', '/* x **/', '//*', '/*/', 'a/b', 'a//b\nc', 'a/*b*/c', '/*é€*/x', 'é/**', '"//"', '/* \n */\n//\n',
             'pragma circom 2.0.0; // c\ntemplate T() {}', '/*/*/', '**/', '/**', '/* *', 'x /*** y ***/ z', '\U0001F600/*\U0001F600*/']
    for text in texts:
        h = Harness(pr, 'parser'); cap = {}
        h.stub_res.append((__import__('re').compile(r'(?:errors::)?UnclosedCommentError::into_report'), lambda ex, args, m: cap.__setitem__('e', args[0]) or Opaque('report')))
        out = []
        st, vs, inc = explore(h, fn, lambda ex: [StrV.of(text), FILE_ID], on_path=lambda ex, res: out.append(res))
        got = nat.ask('pp ' + text.encode('utf-8').hex())
        if len(out) != 1 or inc or vs:
            rep.inconclusive.append('selftest %r: engine did not produce a single result (%s %s)' % (text, inc, vs)); continue
        r = out[0]
        if r.var == 'Ok': eng = ('Ok ' + r.f[0].concrete().encode('utf-8').hex()).strip()
        else:
            e = cap['e']; eng = 'Err %d %d %d error' % (e.f[0].f[0], e.f[0].f[1], e.f[1])
        if eng != got.strip(): rep.inconclusive.append('selftest mismatch on %r: engine %s native %s' % (text, eng, got))
        n += 1
    return n
