"""C12 — the control-flow graph of every definition is well formed;  C13 — it contains every source
execution, statement by statement.

Engine: mirsym over the MIR of control_flow_graph::lifting::{build_basic_blocks, visit_statement,
complete_basic_block}, NonEmptyVec, BasicBlock and DominatorTree::new.  The AST given to the lifter is a
statement *skeleton* whose node kinds are solver variables (Block / bare body, If, If-Else, While, leaf;
bounded depth and width): the executor forks on them, so every path is one program shape.  Leaf
lifting (statements, expressions, metas) is stubbed by tokens that remember the AST node.

C12 (per shape): entry block without predecessor, all blocks reachable, successor/predecessor sets
  mirror each other, a branch only as last statement of a block, branch targets are existing blocks and
  contained in the successor set, <= 2 successors (1 without a branch), i dominates j => i <= j,
  loop depth of a block = number of loops whose body contains its statements.
C13 (per shape, per sequence of branch/loop decisions up to a bound): the leaf statements and conditions
  a structured interpreter of the skeleton executes, in order, up to its first `return`, are the ones
  met by walking the produced graph from the entry with the same decisions.
"""
import re, json, itertools
import z3
from . import common
from mirsym.program import Program
from mirsym.engine import Harness, explore, Stats, Unsupported, PathDead
from mirsym.values import *
from mirsym.models import some, none, ok, err
from mirsym.models_coll import MapV, SetV
from .irbuild import IR
from oracles import dominance as D

_prog = None


def prog():
    global _prog
    if _prog is None: _prog = Program(['structure'])
    return _prog


# ----------------------------------------------------------------------------- skeletons
# a skeleton is a nested python tuple:  ('leaf', id, is_return) | ('if', id, body) | ('ifelse', id, body, body) | ('while', id, body) | ('block', [stmts])
def bounds(tier, prop='C12'):
    if prop == 'C12': return {'nodes': 4 if tier == 'quick' else 5}
    return {'nodes': 3 if tier == 'quick' else 4}


_ENUM = {}


def all_skeletons(nodes, with_return, with_for=False):
    """every program (top-level block) with 1..nodes statements in total, each exactly once.
    statement = leaf | return | if body | if body else body | while body;  body = braced block of >= 0 statements | one bare statement"""
    key = (nodes, with_return, with_for)
    if key in _ENUM: return _ENUM[key]
    from functools import lru_cache
    leaves = [('leaf', False)] + ([('leaf', True)] if with_return else [])

    @lru_cache(None)
    def stmts(m):          # statements with exactly m nodes (ids filled in later)
        out = []
        if m == 1: out += [('leaf', r) for _, r in leaves]
        if m >= 1:
            for b in bodies(m - 1):
                out.append(('if', b)); out.append(('while', b))
                if with_for: out.append(('for', b))
            for k in range(m):
                for b1 in bodies(k):
                    for b2 in bodies(m - 1 - k): out.append(('ifelse', b1, b2))
        return tuple(out)

    @lru_cache(None)
    def lists(m):          # sequences of statements with exactly m nodes in total
        if m == 0: return ((),)
        out = []
        for k in range(1, m + 1):
            for s in stmts(k):
                for rest in lists(m - k): out.append((s,) + rest)
        return tuple(out)

    @lru_cache(None)
    def bodies(m):
        out = [('block', l) for l in lists(m)]
        if m >= 1: out += [('bare', s) for s in stmts(m)]
        return tuple(out)

    progs = []
    for m in range(1, nodes + 1): progs += [('block', l) for l in lists(m)]
    _ENUM[key] = progs
    return progs


def number(sk, counter):
    """assign ids in source order: ('leaf', id, is_return) | ('if', id, body) | ('ifelse', id, b1, b2) | ('while', id, body) | ('block', [..])"""
    k = sk[0]
    if k == 'leaf': counter[0] += 1; return ('leaf', counter[0], sk[1])
    if k == 'block': return ('block', [number(s, counter) for s in sk[1]])
    if k == 'bare': return number(sk[1], counter)
    if k == 'for':
        # the parser's expansion (ast_shortcuts::for_into_while): { init; while (cond) { body; step } }
        counter[0] += 1; i_init = counter[0]
        counter[0] += 1; i_while = counter[0]
        body = number(sk[1], counter)
        counter[0] += 1; i_step = counter[0]
        return ('block', [('leaf', i_init, False), ('while', i_while, ('block', [body, ('leaf', i_step, False)]))])
    counter[0] += 1; i = counter[0]
    if k == 'ifelse': return ('ifelse', i, number(sk[1], counter), number(sk[2], counter))
    return (k, i, number(sk[1], counter))


_FAMS = {}


def _levels(s):
    """(writable, S2, S1, NB) of an un-numbered statement per the statement levels of lang.lalrpop: `while`/`for` bodies are
    Statement2 (no bare `if`), the if-case of an if-else is Statement1 (no dangling else), blocks hold any statement"""
    k = s[0]
    if k == 'leaf': return (True, True, True, False)
    def body(b):
        if b[0] == 'block':
            return (all(_levels(x)[0] for x in b[1]), True, True, False)
        return _levels(b[1])
    if k == 'for':          # written as its expansion { init; while (c) { body; step } }: the body stands in a block
        w = body(s[1])[0]
        return (w, w, w, False)
    if k == 'while':
        w, s2, s1, nb = body(s[1])
        return (w and s2, w and s2, w and s2, False)
    if k == 'if':
        w, s2, s1, nb = body(s[1])
        ok_ = w and (s1 or nb)
        return (ok_, False, False, ok_)
    if k == 'ifelse':
        w1, a2, a1, anb = body(s[1]); w2, b2, b1, bnb = body(s[2])
        is_s1 = w1 and w2 and a1 and b1
        is_nb = w1 and w2 and a1 and bnb
        return (is_s1 or is_nb, False, is_s1, is_nb)
    raise KeyError(k)


def writable(sk):
    return all(_levels(x)[0] for x in sk[1])


def skeleton_family(nodes, with_return):
    """all skeletons with <= nodes statements; `for` statements (counted as one statement) up to 4 statements"""
    key = (nodes, with_return)
    if key not in _FAMS:
        fnodes = nodes if with_return else nodes - 1       # C12: one statement less for the programs with `for`
        fam = [s for s in all_skeletons(min(fnodes, 4), with_return, True) if writable(s)]
        if nodes > fnodes or nodes > 4:
            have = set(fam)
            fam += [s for s in all_skeletons(nodes, with_return, False) if s not in have and writable(s)]
        _FAMS[key] = fam
    return _FAMS[key]


def tasks(tier, prop='C12'):
    b = bounds(tier, prop)
    n = len(skeleton_family(b['nodes'], prop == 'C13'))
    chunk = max(1, (n + 63) // 64)
    ts = [{'lo': i, 'hi': min(n, i + chunk), 'prop': prop} for i in range(0, n, chunk)]
    if prop == 'C13':
        ts += [{'part': 'shortcut', 'which': w, 'indexed': ix, 'prop': prop} for w in ('opassign', 'plusplus', 'subsub') for ix in (False, True)] + [{'part': 'shortcut', 'which': 'for', 'prop': prop}]
    return ts


def ast_of(ir, sk):
    """ast::Statement value for a skeleton"""
    A = 'ast::Statement'
    def meta(i): return Struct('ast::Meta', [i, i, i, ir.range_(i, i), some(0), Opaque('ci'), Opaque('tk'), Opaque('mk')])
    def cond(i): return Opaque('cond', i)
    k = sk[0]
    if k == 'leaf':
        if sk[2]: return ir.E(A, 'Return', meta=meta(sk[1]), value=Opaque('expr', sk[1]))
        return ir.E(A, 'Assert', meta=meta(sk[1]), arg=Opaque('expr', sk[1]))
    if k == 'block': return ir.E(A, 'Block', meta=meta(0), stmts=VecV([ast_of(ir, s) for s in sk[1]]))
    if k == 'if': return ir.E(A, 'IfThenElse', meta=meta(sk[1]), cond=cond(sk[1]), if_case=BoxV(ast_of(ir, sk[2])), else_case=none())
    if k == 'ifelse': return ir.E(A, 'IfThenElse', meta=meta(sk[1]), cond=cond(sk[1]), if_case=BoxV(ast_of(ir, sk[2])), else_case=some(BoxV(ast_of(ir, sk[3]))))
    if k == 'while': return ir.E(A, 'While', meta=meta(sk[1]), cond=cond(sk[1]), stmt=BoxV(ast_of(ir, sk[2])))
    raise KeyError(k)


def install_stubs(h, ir):
    R = lambda p, f: h.stub_res.append((re.compile(p), f))

    def lift_meta(ex, a, m):
        am = deref(a[0]); return ok(ir.meta(start=am.f[1], end=am.f[2]))
    R(r'<(?:&)?(?:abstract_syntax_tree::)?(?:ast::)?Meta as (?:intermediate_representation::lifting::|ir::lifting::|lifting::)?TryLift<\(\)>>::try_lift', lift_meta)
    R(r'<(?:&)?(?:abstract_syntax_tree::)?(?:ast::)?Expression as (?:intermediate_representation::lifting::|ir::lifting::|lifting::)?TryLift<\(\)>>::try_lift', lambda ex, a, m: ok(Opaque('irexpr', deref(a[0]).data)))

    def lift_stmt(ex, a, m):
        s = deref(a[0]); i = ir.get(s, 'meta').f[1]
        return ok(ir.E(ir.T, 'Return' if s.var == 'Return' else 'Assert', **({'meta': ir.meta(start=i, end=i), 'value': Opaque('irexpr', i)} if s.var == 'Return' else {'meta': ir.meta(start=i, end=i), 'arg': Opaque('irexpr', i)})))
    R(r'<(?:&)?(?:abstract_syntax_tree::)?(?:ast::)?Statement as (?:intermediate_representation::lifting::|ir::lifting::|lifting::)?TryLift<\(\)>>::try_lift', lift_stmt)


def graph_of(ir, blocks):
    """python view of the Vec<BasicBlock> the lifter produced"""
    out = []
    for b in blocks:
        stmts = []
        for s in ir.get(b, 'stmts').items:
            m = ir.get(s, 'meta'); i = ir.get(m, 'location').f[0]
            if s.var == 'IfThenElse':
                fi = ir.get(s, 'false_index')
                stmts.append(('branch', i, ir.get(s, 'true_index'), fi.f[0] if fi.var == 'Some' else None))
            else: stmts.append(('leaf', i, s.var == 'Return'))
        out.append({'index': ir.get(b, 'index'), 'depth': ir.get(b, 'loop_depth'), 'stmts': stmts,
                    'preds': sorted(deref(x) for x in ir.get(b, 'predecessors').items), 'succs': sorted(deref(x) for x in ir.get(b, 'successors').items)})
    return out


def expected_depths(sk, d=0, out=None):
    out = {} if out is None else out
    k = sk[0]
    if k == 'leaf': out[sk[1]] = d
    elif k == 'block':
        for s in sk[1]: expected_depths(s, d, out)
    elif k == 'if': out[sk[1]] = d; expected_depths(sk[2], d, out)
    elif k == 'ifelse': out[sk[1]] = d; expected_depths(sk[2], d, out); expected_depths(sk[3], d, out)
    elif k == 'while': out[sk[1]] = d; expected_depths(sk[2], d + 1, out)
    return out


def check_c12(ex, sk, g):
    n = len(g); O = ex.oblige
    O(all(b['index'] == i for i, b in enumerate(g)), 'index', 'block i is stored at position i')
    O(g[0]['preds'] == [], 'entry', 'block 0 is the entry and has no predecessor')
    seen = {0}; work = [0]
    while work:
        for s in g[work.pop()]['succs']:
            if 0 <= s < n and s not in seen: seen.add(s); work.append(s)
    O(len(seen) == n, 'reachable', 'every block is reachable from the entry (%d of %d)' % (len(seen), n))
    O(all((j in g[i]['succs']) == (i in g[j]['preds']) for i in range(n) for j in range(n)) and all(0 <= x < n for b in g for x in b['succs'] + b['preds']), 'mirror', 'successor and predecessor sets mirror each other')
    for b in g:
        br = [k for k, s in enumerate(b['stmts']) if s[0] == 'branch']
        O(all(k == len(b['stmts']) - 1 for k in br), 'branch-last', 'a branch occurs only as the last statement of block %d' % b['index'])
        if br:
            _, _, ti, fi = b['stmts'][-1]
            tg = [ti] + ([fi] if fi is not None else [])
            O(all(0 <= x < n and x in b['succs'] for x in tg), 'branch-target', 'branch targets of block %d are existing blocks contained in its successor set (targets %s, successors %s)' % (b['index'], tg, b['succs']))
            O(len(b['succs']) <= 2, 'succ-count', 'block %d has at most two successors' % b['index'])
        else:
            O(len(b['succs']) <= 1, 'succ-count', 'block %d has no branch and at most one successor (has %s)' % (b['index'], b['succs']))
    pred = [[(j in g[i]['preds']) for j in range(n)] for i in range(n)]
    dom = D.dominance(pred, n)
    O(all((not dom[i][j]) or i <= j for i in range(n) for j in range(n) if j in seen), 'dom-order', 'i dominates j implies i <= j')
    exp = expected_depths(sk)
    for b in g:
        for s in b['stmts']:
            O(b['depth'] == exp.get(s[1]), 'loop-depth', 'loop depth of block %d (%s) equals the number of loops enclosing statement %s (%s)' % (b['index'], b['depth'], s[1], exp.get(s[1])))


# ----------------------------------------------------------------------------- C13 walkers
class Ret(Exception): pass


def walk_ast(sk, dec, trace, limit):
    """structured interpreter: appends leaf / condition ids; dec() yields the next decision"""
    k = sk[0]
    if len(trace) > limit: raise Ret()
    if k == 'leaf':
        trace.append(sk[1])
        if sk[2]: raise Ret()
    elif k == 'block':
        for s in sk[1]: walk_ast(s, dec, trace, limit)
    elif k == 'if':
        trace.append(sk[1])
        if dec(): walk_ast(sk[2], dec, trace, limit)
    elif k == 'ifelse':
        trace.append(sk[1])
        if dec(): walk_ast(sk[2], dec, trace, limit)
        else: walk_ast(sk[3], dec, trace, limit)
    elif k == 'while':
        while True:
            trace.append(sk[1])
            if len(trace) > limit: raise Ret()
            if not dec(): break
            walk_ast(sk[2], dec, trace, limit)


def walk_cfg(g, dec, limit):
    """graph walker: from the entry, true/false edge of every branch by the same decisions; stops at the first return"""
    trace = []; cur = 0
    while True:
        b = g[cur]; nxt = None
        for s in b['stmts']:
            trace.append(s[1])
            if len(trace) > limit: return trace
            if s[0] == 'leaf' and s[2]: return trace
            if s[0] == 'branch':
                if dec(): nxt = s[2]
                else:
                    if s[3] is not None: nxt = s[3]
                    else:
                        other = [x for x in b['succs'] if x != s[2]]
                        nxt = other[0] if other else None
                break
        else:
            nxt = b['succs'][0] if b['succs'] else None
        if nxt is None: return trace
        cur = nxt


def run_shortcut(task):
    """ast_shortcuts (the parser's expansions) from MIR: compound assignment `v op= e`, `v++`, `v--` and `for`"""
    pr = prog(); ir = IR(pr); h = Harness(pr, 'structure'); stats = Stats()
    X = 'ast::Expression'; S = 'ast::Statement'
    meta = lambda i: Struct('ast::Meta', [i, i, i, ir.range_(i, i), some(0), Opaque('ci'), Opaque('tk'), Opaque('mk')])
    ops = pr.defs.enum_variants('ast::ExpressionInfixOpcode')
    opv = z3.Int('op'); h.inputs['op'] = opv
    base = [opv >= min(d for _, d, _ in ops), opv <= max(d for _, d, _ in ops)]
    which = task['which']
    access = VecV([Enum('ast::Access', 'ArrayAccess', [Enum(X, 'Number', [meta(7), BigV(0)])])]) if task.get('indexed') else VecV([])
    is_var = lambda e, name: deref(e).var == 'Variable' and ir.get(e, 'name').concrete() == name and len(ir.get(e, 'access').items) == len(access.items)

    def entry(ex):
        var = Struct('()', [StrV.of('v'), clone_val(access)])
        if which == 'opassign':
            fn = pr.find('assign_with_op_shortcut', crate='structure')
            return ex.call_mir(fn, [Enum('ast::ExpressionInfixOpcode', opv), meta(1), var, Enum(X, 'Variable', [meta(2), StrV.of('e'), VecV([])])])
        if which in ('plusplus', 'subsub'):
            return ex.call_mir(pr.find(which, crate='structure'), [meta(1), var])
        fn = pr.find('for_into_while', crate='structure')
        tok = lambda t, i: ir.E(S, 'Assert', meta=meta(i), arg=Opaque('expr', t))
        return ex.call_mir(fn, [meta(1), tok('init', 2), Opaque('cond'), tok('step', 3), tok('body', 4)])

    def post(ex, st):
        st = deref(st); O = ex.oblige
        if which == 'for':
            O(st.var == 'Block' and len(ir.get(st, 'stmts').items) == 2, 'expansion', 'for (init; c; step) body expands to a block of two statements')
            if st.var != 'Block' or len(ir.get(st, 'stmts').items) != 2: return
            a, w = [deref(x) for x in ir.get(st, 'stmts').items]
            tokof = lambda x: deref(ir.get(x, 'arg')).data if deref(x).var == 'Assert' else None
            O(tokof(a) == 'init', 'expansion', 'the first statement is the initialisation')
            O(w.var == 'While' and isinstance(deref(ir.get(w, 'cond')), Opaque) and deref(ir.get(w, 'cond')).tag == 'cond', 'expansion', 'the second statement is a while loop on the condition')
            if w.var != 'While': return
            bd = deref(ir.get(w, 'stmt')); bd = deref(bd.f[0]) if isinstance(bd, BoxV) else bd
            items = [deref(x) for x in ir.get(bd, 'stmts').items] if bd.var == 'Block' else []
            O([tokof(x) for x in items] == ['body', 'step'], 'expansion', 'the loop body is { body; step } in this order (got %s)' % [tokof(x) for x in items])
            return
        O(st.var == 'Substitution', 'expansion', 'a compound assignment expands to a substitution')
        if st.var != 'Substitution': return
        O(ir.get(st, 'var').concrete() == 'v' and len(ir.get(st, 'access').items) == len(access.items) and ir.get(st, 'op').var == 'AssignVar', 'expansion', 'it assigns the same variable (with the same access) with `=`')
        rhe = deref(ir.get(st, 'rhe'))
        O(rhe.var == 'InfixOp', 'expansion', 'the right-hand side is an infix operation')
        if rhe.var != 'InfixOp': return
        unbox = lambda b_: deref(deref(b_).f[0]) if isinstance(deref(b_), BoxV) else deref(b_)
        l = unbox(ir.get(rhe, 'lhe')); r = unbox(ir.get(rhe, 'rhe')); op = ir.get(rhe, 'infix_op')
        O(is_var(l, 'v'), 'expansion', 'the left operand is the assigned variable (with the same access)')
        if which == 'opassign':
            d = op.var if not isinstance(op.var, str) else [dd for n_, dd, _ in ops if n_ == op.var][0]
            O(simp(eq(d, opv)), 'expansion', '`v op= e` uses the operator that was written')
            O(r.var == 'Variable' and ir.get(r, 'name').concrete() == 'e', 'expansion', 'the right operand is the expression that was written')
        else:
            want = 'Add' if which == 'plusplus' else 'Sub'
            O(op.var == want or (not isinstance(op.var, str) and op.var == [dd for n_, dd, _ in ops if n_ == want][0]), 'expansion', '`v%s` uses %s' % ('++' if which == 'plusplus' else '--', want))
            O(r.var == 'Number' and r.f[1].t == 1, 'expansion', 'the right operand is the number 1')
    st_, vs, inc = explore(h, entry, None, post=post, base=base, stats=stats, seed=common.seed())
    for v in vs: v.extra['shortcut'] = which
    return {'stats': common.pack_stats(stats), 'violations': [common.pack_violation(v) for v in vs]}


def run_task(task):
    if task.get('part') == 'shortcut': return run_shortcut(task)
    pr = prog(); ir = IR(pr); prop = task['prop']
    tier = task.get('tier', 'quick'); b = bounds(tier, prop)
    h = Harness(pr, 'structure')
    h.step_budget = 600_000
    install_stubs(h, ir)
    fn = pr.find('build_basic_blocks', crate='structure')
    domnew = pr.method(None, 'DominatorTree', 'new')
    stats = Stats()
    K = 6 if tier == 'quick' else 8
    dvars = [z3.Bool('d%d' % i) for i in range(K)]

    skels = skeleton_family(b['nodes'], prop == 'C13')
    shape = z3.Int('shape')
    h.inputs['shape'] = shape

    def entry(ex):
        idx = ex.concretize(shape, task['lo'], task['hi'] - 1)        # the solver picks the program shape: one path per shape
        sk = number(skels[idx], [0])
        ex.notes['sk'] = sk
        body = ast_of(ir, sk)
        env = Opaque('liftenv'); reports = VecV([])
        res = ex.call_mir(fn, [Ref([body], 0), Ref([env], 0), Ref([reports], 0)])
        return res

    def post(ex, res):
        sk = ex.notes['sk']
        ex.oblige(res.var == 'Ok', 'lift-ok', 'lifting a well-formed skeleton succeeds')
        if res.var != 'Ok': return
        blocks = res.f[0].items
        g = graph_of(ir, blocks)
        if prop == 'C12':
            check_c12(ex, sk, g)
            # the dominator tree constructor's own assertions must hold on the produced graph
            ex.call_mir(domnew, [SliceV(res.f[0], 0, len(blocks))])
        else:
            for i, d in enumerate(dvars): ex.h.inputs['d%d' % i] = d
            used = [0]
            def dec():
                i = used[0]; used[0] += 1
                if i >= K: raise Ret()
                return ex.decide(dvars[i])
            LIM = 40
            t1 = []
            try: walk_ast(sk, dec, t1, LIM)
            except Ret: pass
            n1 = used[0]; used[0] = 0
            try: t2 = walk_cfg(g, dec, LIM)
            except Ret: t2 = None
            if t2 is None or n1 > K or used[0] > K: return      # decision budget exhausted: outside the bound
            m = min(len(t1), len(t2)) if (len(t1) > LIM or len(t2) > LIM) else None
            same = (t1[:m] == t2[:m]) if m else (t1 == t2[:len(t1)])
            ex.oblige(same, 'path', 'the graph walk meets the statements of the source execution in order (source %s, graph %s)' % (t1, t2))
    st, vs, inc = explore(h, entry, None, post=post, base=[shape >= task['lo'], shape < task['hi']], stats=stats, seed=common.seed())
    out = []
    for v in vs:
        pv = common.pack_violation(v); out.append(pv)
    return {'stats': common.pack_stats(stats), 'violations': out}


# ----------------------------------------------------------------------------- replay
class Src:
    """Circom source of a skeleton, remembering the byte offset at which every statement starts"""
    def __init__(self): self.text = ''; self.off = {}

    def emit(self, sk, ind):
        pad = '    ' * ind; k = sk[0]
        if k == 'leaf':
            self.text += pad; self.off[len(self.text)] = sk[1]
            self.text += ('return %d;\n' % sk[1]) if sk[2] else ('x = x + %d;\n' % sk[1])
            return
        if k == 'block':
            self.text += '{\n'
            for s in sk[1]: self.emit(s, ind + 1)
            self.text += '    ' * ind + '}\n'
            return
        self.text += pad; self.off[len(self.text)] = sk[1]
        self.text += ('while (x < %d)' if k == 'while' else 'if (x == %d)') % sk[1]
        self.body(sk[2], ind)
        if k == 'ifelse':
            self.text += pad + 'else'
            self.body(sk[3], ind)

    def body(self, bd, ind):
        if bd[0] == 'block':
            self.text += ' '; self.emit(bd, ind)
        else:
            self.text += '\n'; self.emit(bd, ind + 1)


def source_of(sk):
    s = Src(); s.text = 'function f(x) '; s.emit(sk, 0); return s


class Recorder:
    def __init__(self): self.failed = []
    def oblige(self, cond, kind, msg, **kw):
        if cond is not True: self.failed.append((kind, msg))


NAT = None


def native_graph(sk):
    global NAT
    if NAT is None: NAT = common.Native(common.build_replay('vr_analysis'))
    src = source_of(sk)
    out = NAT.ask('cfgdump ' + src.text.encode().hex(), timeout=30)
    if not out.startswith('['): return None, out, src
    g = json.loads(out)
    for b in g:
        b['stmts'] = [tuple([st[0], src.off.get(st[1], -st[1])] + st[2:]) for st in b['stmts']]
    return g, out, src


def confirm(sk, prop, decisions):
    """replay on the real parser + lifter: the same checker on the natively produced graph"""
    g, raw, src = native_graph(sk)
    if g is None: return (None if raw.startswith('PARSEERR') else True), raw, 'a control-flow graph'
    rec = Recorder()
    if prop == 'C12':
        check_c12(rec, sk, g)
        return bool(rec.failed), rec.failed[:3], 'all well-formedness invariants'
    it = iter(decisions + [False] * 64)
    t1 = []
    try: walk_ast(sk, lambda: next(it), t1, 40)
    except Ret: pass
    it = iter(decisions + [False] * 64)
    t2 = walk_cfg(g, lambda: next(it), 40)
    return t1 != t2[:len(t1)], {'graph walk': t2}, {'source execution': t1}


def confirm_shortcut(which):
    """native observation for the `for` expansion: in the graph of the real parser + lifter the body statement precedes the step"""
    global NAT
    if which != 'for': return None, 'engine-level only (the expansion is an AST value)', None
    if NAT is None: NAT = common.Native(common.build_replay('vr_analysis'))
    src = 'function f(x) {\n    for (x = 1; x < 2; x = x + 3) {\n        x = x + 4;\n    }\n    return x;\n}\n'
    out = NAT.ask('cfgdump ' + src.encode().hex(), timeout=30)
    if not out.startswith('['): return True, out, 'a control-flow graph'
    step = src.index('x = x + 3'); body = src.index('x = x + 4')
    for b in json.loads(out):
        offs = [st[1] for st in b['stmts']]
        if step in offs and body in offs:
            return offs.index(body) > offs.index(step), {'order in the loop body block': ['body' if o == body else 'step' for o in offs if o in (step, body)]}, {'order': ['body', 'step']}
    return True, 'body and step are not in one block: ' + out[:200], {'order': ['body', 'step']}


def main(tier, replay=None, prop='C12'):
    rep = common.Report(prop, tier)
    if replay and json.load(open(replay)).get('shortcut'):
        d = json.load(open(replay)); bad, got, exp = confirm_shortcut(d['shortcut'])
        if bad is None:
            r = run_shortcut({'part': 'shortcut', 'which': d['shortcut'], 'indexed': False, 'prop': prop}); bad = bool(r['violations']); got = [v['msg'] for v in r['violations']][:2]
        print('replay: observed=%s expected=%s -> %s' % (got, exp, 'VIOLATION' if bad else 'holds')); return 1 if bad else 0
    if replay:
        d = json.load(open(replay)); import ast as _ast
        bad, got, exp = confirm(_ast.literal_eval(d['skeleton']), prop, d.get('decisions', []))
        print('replay on the real lifter: observed=%s expected=%s -> %s' % (got, exp, 'VIOLATION' if bad else 'holds')); return 1 if bad else 0
    # translator validation: a few fixed programs through the real parser + lifter and the same checker
    for idx in (0, 5, 17, 101, 400, 700):
        sks = skeleton_family(3, prop == 'C13')
        sk = number(sks[idx % len(sks)], [0])
        bad, got, exp = confirm(sk, prop, [True, False, True, True, False, False]); rep.validated += 1
        if bad: rep.inconclusive.append('fixed program %s: native graph fails the checker: %s' % (source_of(sk).text, got))
    ts = [dict(t, tier=tier) for t in tasks(tier, prop)]
    results = common.run_tasks('specs.C12', ts)
    known = common.load_known(prop); seen = {}
    for r in results:
        if 'error' in r:
            rep.inconclusive.append('task %s: %s' % (r['task'], r['error'][:500])); continue
        rep.add_stats(r['stats'])
        for v in r['violations']:
            if r['task'].get('part') == 'shortcut':
                which = r['task']['which']
                role = {'function': 'ast_shortcuts::' + which, 'kind': v['kind'], 'class': 'any'}
                key = json.dumps(role, sort_keys=True)
                if key in seen: continue
                bad, got, exp = confirm_shortcut(which); rep.validated += 1
                if bad is False:
                    rep.nonrepro.append({'violation': v, 'observed': str(got)}); continue
                seen[key] = 1
                k = common.match_known(known, role)
                if k: rep.known_hits.append('%s (%s)' % (k['id'], v['msg'][:300]))
                else:
                    rep.violations.append(rep.save_replay(role, {'property': prop, 'violation': v, 'shortcut': which, 'observed': str(got), 'expected': str(exp), 'native_replay': bad is True}))
                    common.log('VIOLATION detail:', '%s (expansion %s) native: %s' % (v['msg'], which, got))
                continue
            role = {'function': 'control_flow_graph::lifting', 'kind': v['kind'], 'class': 'any'}
            key = json.dumps(role, sort_keys=True)
            if key in seen: continue
            sk = number(skeleton_family(bounds(tier, prop)['nodes'], prop == 'C13')[v['model'].get('shape', 0)], [0])
            decisions = [bool(v['model'].get('d%d' % i)) for i in range(8)]
            bad, got, exp = confirm(sk, prop, decisions); rep.validated += 1
            src = source_of(sk).text
            if bad is None:
                rep.inconclusive.append('a skeleton of the family is not accepted by the real parser (the family filter `writable` is out of date): %s' % src[:300]); continue
            if not bad:
                rep.nonrepro.append({'violation': v, 'circom': src, 'observed': str(got)[:300]}); continue
            seen[key] = 1
            k = common.match_known(known, role)
            desc = '%s on the program\n%s  native: %s' % (v['msg'], src, str(got)[:300])
            if k: rep.known_hits.append('%s (%s)' % (k['id'], desc[:300]))
            else:
                rep.violations.append(rep.save_replay(role, {'property': prop, 'violation': v, 'skeleton': repr(sk), 'circom': src, 'decisions': decisions, 'observed': str(got), 'expected': str(exp)}))
                common.log('VIOLATION detail:', desc)
    if rep.nonrepro and not rep.violations:
        rep.inconclusive.append('%d counterexamples did not reproduce on the natively built graph, e.g. %s' % (len(rep.nonrepro), json.dumps(rep.nonrepro[0], default=str)[:400]))
    if NAT: NAT.close()
    pr = prog(); b = bounds(tier, prop)
    rep.bounds = {'skeletons': 'every program with at most %d statements in total (%d shapes): statement = leaf%s | if | if-else | while | for (as the expansion of the parser: {init; while (c) {body; step}}; in programs of <= 4 statements, for C12 one statement less than the bound); bodies = braced block of any number of statements (also empty) or a bare statement where the grammar allows one; any nesting' % (b['nodes'], len(skeleton_family(b['nodes'], prop == 'C13')), ' | return' if prop == 'C13' else ''),
                  'decisions (C13)': '<= %d branch/loop decisions per run' % (6 if tier == 'quick' else 8)}
    rep.stubs = ['TryLift of ast::Meta / ast::Expression / leaf ast::Statement (tokens that remember the AST node)', 'LiftingEnvironment (unused: no declarations in the skeleton)', 'log macros disabled']
    rep.assumptions = ['HashSet<usize> modelled as an insertion-ordered set', 'source hash ' + pr.hashes['structure']]
    if prop == 'C13': rep.bounds['expansions'] = 'ast_shortcuts::{assign_with_op_shortcut (symbolic operator), plusplus, subsub} on plain and indexed variables, for_into_while'
    rep.outside = ['the grammar actions that call ast_shortcuts', 'real leaf lifting', 'SSA', 'deeper or wider programs']
    rep.extra['exhaustive'] = True
    return rep.finish()
