"""Shared driver: task pool, replay, known findings, evidence, exit codes."""
import os, sys, json, time, subprocess, hashlib, traceback, multiprocessing, signal

ROOT = os.path.dirname(os.path.dirname(os.path.abspath(__file__)))
sys.path.insert(0, ROOT)
REPO = os.environ.get('VERIF_REPO', '/repo')
CACHE = os.path.join(ROOT, '.cache')
EVIDENCE = os.path.join(ROOT, 'evidence')
REPLAYS = os.path.join(ROOT, 'replays')
os.makedirs(CACHE, exist_ok=True)
NCPU = int(os.environ.get('VERIF_JOBS', str(min(16, os.cpu_count() or 4))))


def seed():
    try: return int(os.environ.get('VERIF_SEED', '0'))
    except ValueError: return 0


def log(*a):
    print(*a, file=sys.stderr, flush=True)


# ----------------------------------------------------------------------------- native replay helpers
_built = {}


def build_replay(member, features=None):
    """cargo-build one member of /verif/replay against /repo's working tree; returns the binary path."""
    key = (member, features)
    if key in _built: return _built[key]
    tdir = os.path.join(CACHE, 'replay-target')
    cmd = ['cargo', 'build', '--offline', '-q', '-p', member, '--target-dir', tdir]
    if features: cmd += ['--features', features]
    env = dict(os.environ, CARGO_NET_OFFLINE='true')
    r = subprocess.run(cmd, cwd=os.path.join(ROOT, 'replay'), env=env, capture_output=True, text=True)
    if r.returncode != 0:
        raise RuntimeError('building %s failed:\n%s' % (member, r.stderr[-4000:]))
    p = os.path.join(tdir, 'debug', member)
    _built[key] = p
    return p


class Native:
    """line-protocol co-process (one request per line, one answer per line)."""

    def __init__(self, binary, mem_kb=4_000_000):
        self.binary = binary; self.mem_kb = mem_kb; self.p = None; self.calls = 0

    def _start(self):
        def lim():
            import resource
            resource.setrlimit(resource.RLIMIT_AS, (self.mem_kb * 1024, self.mem_kb * 1024))
        self.p = subprocess.Popen([self.binary], stdin=subprocess.PIPE, stdout=subprocess.PIPE, stderr=subprocess.DEVNULL,
                                  text=True, bufsize=1, preexec_fn=lim)

    def ask(self, line, timeout=20):
        if self.p is None or self.p.poll() is not None: self._start()
        self.calls += 1
        import select
        try:
            self.p.stdin.write(line + '\n'); self.p.stdin.flush()
        except BrokenPipeError:
            self.p = None; return 'ABORT'
        r, _, _ = select.select([self.p.stdout], [], [], timeout)
        if not r:
            self.p.kill(); self.p.wait(); self.p = None
            return 'TIMEOUT'
        out = self.p.stdout.readline()
        if out == '':
            rc = self.p.wait(); self.p = None
            return 'ABORT rc=%s' % rc
        return out.rstrip('\n')

    def close(self):
        if self.p and self.p.poll() is None:
            try: self.p.stdin.close(); self.p.wait(timeout=2)
            except Exception: self.p.kill()
        self.p = None


# ----------------------------------------------------------------------------- known findings
def load_known(prop):
    p = os.path.join(ROOT, 'known_findings.json')
    if not os.path.exists(p): return []
    data = json.load(open(p))
    return [e for e in data.get('findings', []) if e.get('property') == prop and e.get('status', 'open') == 'open']


def match_known(known, role):
    for e in known:
        er = e.get('role', {})
        if all(role.get(k) == v for k, v in er.items()): return e
    return None


# ----------------------------------------------------------------------------- task pool
def _run_task(arg):
    mod, task = arg
    t = time.time()
    try:
        import importlib
        m = importlib.import_module(mod)
        r = m.run_task(task)
        r['task'] = task; r['wall'] = time.time() - t
        return r
    except Exception as e:
        return {'task': task, 'error': '%s: %s\n%s' % (type(e).__name__, e, traceback.format_exc()[-1500:]), 'wall': time.time() - t}


def run_tasks(mod, tasks, jobs=None, deadline_s=None):
    jobs = jobs or NCPU
    results = []
    if jobs == 1 or len(tasks) == 1:
        for t in tasks: results.append(_run_task((mod, t)))
        return results
    ctx = multiprocessing.get_context('fork')
    with ctx.Pool(min(jobs, len(tasks)), maxtasksperchild=8) as pool:
        it = pool.imap_unordered(_run_task, [(mod, t) for t in tasks])
        t0 = time.time()
        for _ in range(len(tasks)):
            try:
                left = None if deadline_s is None else max(1, deadline_s - (time.time() - t0))
                results.append(it.next(timeout=left))
            except multiprocessing.TimeoutError:
                results.append({'task': '(deadline)', 'error': 'deadline of %ss reached with tasks outstanding' % deadline_s})
                pool.terminate(); break
    return results


# ----------------------------------------------------------------------------- reporting
class Report:
    def __init__(self, prop, tier):
        self.prop = prop; self.tier = tier; self.t0 = time.time()
        self.states = 0; self.transitions = 0; self.queries = 0; self.solver_s = 0.0
        self.obligations = 0; self.discharged = 0; self.validated = 0
        self.samples = []; self.functions = {}; self.bounds = {}; self.assumptions = []
        self.inconclusive = []; self.violations = []; self.known_hits = []; self.nonrepro = []
        self.models_used = set(); self.extra = {}; self.outside = []; self.stubs = []

    def add_stats(self, st):
        """st: dict from a worker (see pack_stats)."""
        self.states += st['paths']; self.transitions += st['blocks']; self.queries += st['queries']
        self.solver_s += st['solver_s']; self.obligations += st['obligations']; self.discharged += st['discharged']
        for s in st['samples']:
            if len(self.samples) < 16: self.samples.append(s)
        for f in st['fns']: self.functions[f] = self.functions.get(f, 0) + 1
        self.models_used |= set(st['models_used'])
        for m in st['inconclusive']:
            if m not in self.inconclusive: self.inconclusive.append(m)

    def finish(self):
        """write evidence, print verdict lines, return exit code."""
        wall = time.time() - self.t0
        os.makedirs(EVIDENCE, exist_ok=True)
        ev = {
            'property_id': self.prop, 'tier': self.tier, 'seed': seed(), 'level': 'model_checking',
            'coverage': {
                'states': self.states, 'transitions': self.transitions,
                'traces_validated_against_impl': self.validated,
                'samples': self.samples[:16] or [{'note': 'no obligations sampled'}],
                'obligations': self.obligations, 'discharged': self.discharged,
                'queries': self.queries, 'solver_s': round(self.solver_s, 2),
                'functions_encoded': sorted(self.functions)[:400], 'functions_encoded_count': len(self.functions),
                'bounds': self.bounds, 'stubs': self.stubs, 'models_used': sorted(self.models_used),
                'inconclusive': self.inconclusive[:20], 'outside_claim': self.outside,
                'known_findings_hit': self.known_hits, 'non_reproducing_models': self.nonrepro[:10],
                'explanation': 'states = feasible MIR paths completed; transitions = MIR basic blocks executed symbolically; '
                               'traces_validated_against_impl = library-model conformance vectors + native replays compared with the real code',
            },
            'assumptions': self.assumptions, 'wall_s': round(wall, 2), 'violations': len(self.violations),
        }
        ev['coverage'].update(self.extra)
        with open(os.path.join(EVIDENCE, self.prop + '.json'), 'w') as f: json.dump(ev, f, indent=1, default=str)
        for k in self.known_hits: print('KNOWN-FINDING: property=%s %s' % (self.prop, k))
        if self.violations:
            for v in self.violations: print('VIOLATION property=%s replay=%s' % (self.prop, v))
            return 1
        if self.inconclusive or self.states == 0:
            print('INCONCLUSIVE property=%s %s' % (self.prop, '; '.join(map(str, self.inconclusive[:5])) or 'nothing explored'))
            return 2
        print('OK property=%s tier=%s paths=%d blocks=%d obligations=%d/%d queries=%d solver=%.1fs wall=%.1fs' % (
            self.prop, self.tier, self.states, self.transitions, self.discharged, self.obligations, self.queries, self.solver_s, wall))
        return 0

    def save_replay(self, sig, data):
        d = os.path.join(REPLAYS, self.prop); os.makedirs(d, exist_ok=True)
        h = hashlib.sha1(json.dumps(sig, sort_keys=True, default=str).encode()).hexdigest()[:12]
        p = os.path.join(d, h + '.json')
        with open(p, 'w') as f: json.dump(data, f, indent=1, default=str)
        return p


def pack_stats(st):
    return {'paths': st.paths, 'blocks': st.blocks, 'queries': st.queries, 'solver_s': st.solver_s,
            'obligations': st.obligations, 'discharged': st.discharged, 'samples': st.samples[:6],
            'fns': sorted(st.fns), 'models_used': sorted(st.models_used), 'inconclusive': list(st.inconclusive), 'dead': st.dead}


def pack_violation(v):
    return {'kind': v.kind, 'msg': v.msg, 'where': v.where, 'model': v.model, 'extra': {k: x for k, x in v.extra.items() if k != 'decisions'}}
