"""C14, second half — the real SSA conversion (ssa_impl.rs + the generic driver) on real basic blocks.

Engine: mirsym over the MIR of control_flow_graph::lifting::build_basic_blocks (real), DominatorTree::new,
Cfg::{propagate_types, cache_variable_use} on the blocks, and steps 1-3 of Cfg::into_ssa in source order:
ssa_impl::Environment::new, insert_phi_statements::<Config>, insert_ssa_variables::<Config>,
ssa_impl::update_declarations, with the real SSAStatement / SSABasicBlock impls for ir::Statement and
BasicBlock (variables_written, new_phi_statement, is_phi_statement_for, ensure_phi_argument,
insert_ssa_variables, visit_expression).

Input family: every structured program (blocks, if, if-else, while; braced non-empty bodies) with <= N
statements whose leaves are taken from an alphabet over a parameter A = (n1), a local B = (n2, suffix "0")
and a signal s:  set v (v = 1), inc v (v = v + 1), use v (assert(v)), upd v (v[0] = 1), sig (s <== A);
conditions read A.  The identifier characters n1, n2 are SOLVER variables, so whether B is a shadowing
declaration of A's name (n1 == n2) or an unrelated variable is decided by the solver wherever the code
compares names.

Decided per program (audit of the produced blocks; the oracle walks the graph itself):
  ok        : conversion succeeds when every read is definitely assigned on every path;
  preserved : the statements of every block are the original ones, in order, behind the inserted phis;
  phi-head  : phi statements stand only at the head of a block;
  versioned : every local occurrence carries a version, the signal none;
  single-def: every versioned local has at most one defining statement (A.0 is defined by the parameter);
  dominance : every read is dominated by its definition; a phi argument is defined in a block that
              dominates (or is) a predecessor of the phi's block;
  path      : along every path through the graph (<= K branch decisions) each read names the version most
              recently assigned to that variable on that path, and at each phi the incoming version is one
              of its arguments;
  declared  : every versioned local occurring in the blocks is covered by the re-issued declarations.
"""
import re, json, itertools, os, tempfile, shutil
import z3
from . import common
from mirsym.program import Program
from mirsym.engine import Harness, explore, Stats, Unsupported
from mirsym.values import *
from mirsym.models import some, none, ok, err
from mirsym.models_coll import MapV, SetV
from .irbuild import IR
from . import C12
from oracles import dominance as D

_prog = None
KINDS = ['setA', 'setB', 'incA', 'incB', 'useA', 'useB', 'updB', 'sig']
KDEC = 6


def prog():
    global _prog
    if _prog is None: _prog = Program(['structure'])
    return _prog


# ----------------------------------------------------------------------------- program family
def _bad(sk, top=True, empty_ok=False):
    k = sk[0]
    if k == 'leaf': return False
    if k == 'bare': return True
    if k == 'block': return (not top and not empty_ok and len(sk[1]) == 0) or any(_bad(s, False, empty_ok) for s in sk[1])
    if k == 'ifelse': return _bad(sk[1], False, empty_ok) or _bad(sk[2], False, empty_ok)
    return _bad(sk[1], False, empty_ok)


def _nleaves(sk):
    k = sk[0]
    if k == 'leaf': return 1
    if k == 'block': return sum(_nleaves(s) for s in sk[1])
    if k == 'ifelse': return _nleaves(sk[1]) + _nleaves(sk[2])
    return _nleaves(sk[1])


def _nctrl(sk):
    k = sk[0]
    if k == 'leaf': return 0
    if k == 'block': return sum(_nctrl(s) for s in sk[1])
    if k == 'ifelse': return 1 + _nctrl(sk[1]) + _nctrl(sk[2])
    return 1 + _nctrl(sk[1])


_FAM = {}


def family(tier):
    """list of (skeleton, tuple of leaf kinds)"""
    if tier in _FAM: return _FAM[tier]
    out = []
    if tier == 'quick':
        # <= 3 statements over the whole alphabet; 4 statements over the scalar alphabet of both variables
        for sk in C12.all_skeletons(4, False):
            if _bad(sk) or _nctrl(sk) == 0: continue
            n = _nleaves(sk) + _nctrl(sk)
            alpha = KINDS if n <= 3 else ['incA', 'setB', 'useA']
            for ks in itertools.product(alpha, repeat=_nleaves(sk)): out.append((sk, ks))
    else:
        for sk in C12.all_skeletons(4, False):
            if _bad(sk, empty_ok=True): continue
            n = _nleaves(sk) + _nctrl(sk)
            alpha = KINDS if n <= 3 else ['setA', 'setB', 'incA', 'incB', 'useA', 'useB']
            for ks in itertools.product(alpha, repeat=_nleaves(sk)): out.append((sk, ks))
        for sk in C12.all_skeletons(5, False):
            if _bad(sk) or _nctrl(sk) < 2 or _nleaves(sk) + _nctrl(sk) != 5: continue
            for ks in itertools.product(['incA', 'setB', 'useA'], repeat=_nleaves(sk)): out.append((sk, ks))
    _FAM[tier] = out
    return out


def tasks(tier):
    n = len(family(tier)); chunk = max(1, (n + 95) // 96)
    return [{'part': 'ssa', 'lo': i, 'hi': min(n, i + chunk), 'tier': tier} for i in range(0, n, chunk)]


# ----------------------------------------------------------------------------- harness
def leaf_ids(sk, out=None):
    """ids of leaves in source order (after C12.number)"""
    out = [] if out is None else out
    k = sk[0]
    if k == 'leaf': out.append(sk[1])
    elif k == 'block':
        for s in sk[1]: leaf_ids(s, out)
    elif k == 'ifelse': leaf_ids(sk[2], out); leaf_ids(sk[3], out)
    else: leaf_ids(sk[2], out)
    return out


def run_task(task):
    pr = prog(); ir = IR(pr)
    h = Harness(pr, 'structure'); h.step_budget = 3_000_000
    h.notes['render_format'] = True
    stats = Stats()
    fam = family(task['tier'])
    shape = z3.Int('shape'); n1 = z3.Int('n1'); n2 = z3.Int('n2')
    h.inputs = {'shape': shape, 'n1': n1, 'n2': n2}
    base = [shape >= task['lo'], shape < task['hi'], n1 >= 97, n1 <= 122, n2 >= 97, n2 <= 122, n1 != 115, n2 != 115]     # `s` is the signal
    R = lambda p, f: h.stub_res.append((re.compile(p), f))
    LIFT = r'(?:intermediate_representation::lifting::|ir::lifting::|lifting::)?TryLift<\(\)>>::try_lift'
    A = lambda version=None: ir.name(StrV([n1]), None, version)
    B = lambda version=None: ir.name(StrV([n2]), '0', version)
    S_ = lambda: ir.name('s')
    local = lambda: ir.vtype('local')

    def var_of(k): return A if k.endswith('A') else B

    def mk_stmt(kind, i):
        m = lambda: ir.meta(start=i, end=i)
        if kind == 'sig': return ir.subst(S_(), 'AssignConstraintSignal', ir.variable(A(), meta=m()), meta=m())
        v = var_of(kind)
        if kind.startswith('set'): return ir.subst(v(), 'AssignLocalOrComponent', ir.number(1, meta=m()), meta=m())
        if kind.startswith('inc'): return ir.subst(v(), 'AssignLocalOrComponent', ir.infix('Add', ir.variable(v(), meta=m()), ir.number(1, meta=m()), meta=m()), meta=m())
        if kind.startswith('use'): return ir.assert_(ir.variable(v(), meta=m()), meta=m())
        if kind.startswith('upd'): return ir.subst(v(), 'AssignLocalOrComponent', ir.update(v(), [ir.array_access(ir.number(0, meta=m()))], ir.number(1, meta=m()), meta=m()), meta=m())
        raise KeyError(kind)

    def lift_meta(ex, a, m):
        am = deref(a[0]); return ok(ir.meta(start=am.f[1], end=am.f[2]))
    R(r'<(?:&)?(?:abstract_syntax_tree::)?(?:ast::)?Meta as ' + LIFT, lift_meta)

    def lift_cond(ex, a, m):
        i = deref(a[0]).data; mm = lambda: ir.meta(start=i, end=i)
        return ok(ir.infix('Lesser', ir.variable(A(), meta=mm()), ir.number(3, meta=mm()), meta=mm()))
    R(r'<(?:&)?(?:abstract_syntax_tree::)?(?:ast::)?Expression as ' + LIFT, lift_cond)

    def lift_stmt(ex, a, m):
        s = deref(a[0]); i = ir.get(s, 'meta').f[1]
        return ok(mk_stmt(ex.notes['kinds'][i], i))
    R(r'<(?:&)?(?:abstract_syntax_tree::)?(?:ast::)?Statement as ' + LIFT, lift_stmt)
    # static trait calls through the SSAConfig projection have no receiver to dispatch on
    newphi = pr.method('SSAStatement', 'Statement', 'new_phi_statement', file_hint='ssa_impl')
    R(r'<<Cfg as (?:\w+::)*SSAConfig>::Statement as (?:\w+::)*SSAStatement<Cfg>>::new_phi_statement', lambda ex, a, m: ex.call_mir(newphi, list(a)))

    build = pr.find('build_basic_blocks', crate='structure')
    domnew = pr.method(None, 'DominatorTree', 'new')
    envnew = pr.method(None, 'Environment', 'new', file_hint='ssa_impl')
    phi_fn = pr.crates['structure']['insert_phi_statements']; ssa_fn = pr.crates['structure']['insert_ssa_variables']
    upd_decl = pr.find('update_declarations', crate='structure')
    bb_types = pr.method(None, 'BasicBlock', 'propagate_types'); bb_cache = pr.method('VariableMeta', 'BasicBlock', 'cache_variable_use')
    decl_new = pr.method(None, 'Declaration', 'new', file_hint='declarations.rs'); decls_add = pr.method(None, 'Declarations', 'add_declaration')

    def entry(ex):
        idx = ex.concretize(shape, task['lo'], task['hi'] - 1)
        sk0, ks = fam[idx]
        sk = C12.number(sk0, [0])
        kinds = dict(zip(leaf_ids(sk), ks))
        ex.notes.update(sk=sk, kinds=kinds, ks=ks)
        body = C12.ast_of(ir, sk)
        res = ex.call_mir(build, [Ref([body], 0), Ref([Opaque('liftenv')], 0), Ref([VecV([])], 0)])
        if res.var != 'Ok': ex.oblige(False, 'lift-ok', 'lifting a well-formed skeleton succeeds'); return None
        blocks = res.f[0]
        # declarations as the lifter would have recorded them: the parameter, the local (declared in the entry block), the signal
        decls = Struct('Declarations', [MapV()])
        dcell = [decls]
        for nm, ty in ((A(), local()), (B(), local()), (S_(), ir.vtype('signal', 'Output'))):
            d = ex.call_mir(decl_new, [Ref([nm], 0), Ref([ty], 0), SliceV(VecV([]), 0, 0), Ref([some(0)], 0), Ref([ir.range_(0, 0)], 0)])
            ex.call_mir(decls_add, [Ref(dcell, 0), Ref([d], 0)])
        b0 = blocks.items[0]
        stmts0 = ir.get(b0, 'stmts')
        stmts0.items[0:0] = [ir.decl([B()], local(), meta=ir.meta(900, 900)), ir.decl([S_()], ir.vtype('signal', 'Output'), meta=ir.meta(901, 901))]
        for k in range(len(blocks.items)):
            ex.call_mir(bb_types, [Ref(blocks.items, k), Ref(dcell, 0)])
            ex.call_mir(bb_cache, [Ref(blocks.items, k)])
        ex.notes['orig'] = view(ir, ex, blocks.items)
        n = len(blocks.items)
        tree = ex.call_mir(domnew, [SliceV(blocks, 0, n)])
        params = ir.S('Parameters', param_names=VecV([A()]), file_id=some(0), file_location=ir.range_(1, 2))
        env = ex.call_mir(envnew, [Ref([params], 0), Ref(dcell, 0)])
        ecell = [env]
        ex.call_mir(phi_fn, [SliceV(blocks, 0, n), Ref([tree], 0), Ref(ecell, 0)])
        r = ex.call_mir(ssa_fn, [SliceV(blocks, 0, n), Ref([tree], 0), Ref(ecell, 0)])
        if r.var != 'Ok': return ('err', blocks, None)
        pn = ir.get(params, 'param_names')
        pn.items[0] = A(0)
        bcell = [blocks]
        newdecls = ex.call_mir(upd_decl, [Ref(bcell, 0), Ref([params], 0), Ref(ecell, 0)])
        return ('ok', bcell[0], newdecls)

    def post(ex, res):
        if res is None: return
        status, blocks, newdecls = res
        same = ex.decide(n1 == n2)
        orig = ex.notes['orig']
        info = {'program': describe(ex.notes['sk'], ex.notes['kinds']), 'same_name': same}
        if status == 'err':
            ex.oblige(not definitely_assigned(orig), 'ok', 'SSA conversion succeeds when every read is definitely assigned (%s)' % info, extra=info)
            return
        g = view(ir, ex, blocks.items)
        declared = set()
        for k_, d in deref(newdecls).f[0].entries:
            declared.add(vkey(ir, ex, k_))
        for msg in audit(orig, g, declared):
            ex.oblige(False, msg[0], msg[1] + ' (%s)' % info, extra=info)
        ex.oblige(True, 'audit', 'all SSA obligations checked on this program')
    st, vs, inc = explore(h, entry, None, post=post, base=base, stats=stats, seed=common.seed())
    out = []
    for v in vs:
        pv = common.pack_violation(v); out.append(pv)
    return {'stats': common.pack_stats(stats), 'violations': out}


# ----------------------------------------------------------------------------- python view of the blocks
def vkey(ir, ex, name):
    """('A'|'B'|'s'|other, version|None)"""
    name = deref(name)
    nm = ir.get(name, 'name'); sf = ir.get(name, 'suffix'); ver = ir.get(name, 'version')
    txt = deref(nm).concrete()
    if txt == 's': base = 's'
    else: base = 'B' if sf.var == 'Some' else 'A'
    return (base, ver.f[0] if ver.var == 'Some' else None)


def view(ir, ex, blocks):
    out = []
    for b in blocks:
        stmts = []
        for s in ir.get(b, 'stmts').items:
            s = deref(s); loc = ir.get(ir.get(s, 'meta'), 'location').f[0]
            if s.var == 'Declaration':
                nev = ir.get(s, 'names'); names = [ir.get(nev, 'head')] + list(ir.get(nev, 'tail').items)
                stmts.append({'k': 'decl', 'id': loc, 'names': [vkey(ir, ex, x) for x in names], 'reads': [], 'def': None})
            elif s.var == 'Substitution':
                rhe = deref(ir.get(s, 'rhe')); d = vkey(ir, ex, ir.get(s, 'var'))
                if rhe.var == 'Phi': stmts.append({'k': 'phi', 'id': loc, 'def': d, 'args': [vkey(ir, ex, x) for x in ir.get(rhe, 'args').items], 'reads': []})
                else: stmts.append({'k': 'subst', 'id': loc, 'def': d, 'reads': reads(ir, ex, rhe), 'op': ir.get(s, 'op').var, 'updvar': vkey(ir, ex, ir.get(rhe, 'var')) if rhe.var == 'Update' else None})
            elif s.var == 'IfThenElse':
                fi = ir.get(s, 'false_index')
                stmts.append({'k': 'branch', 'id': loc, 'def': None, 'reads': reads(ir, ex, ir.get(s, 'cond')), 't': ir.get(s, 'true_index'), 'f': fi.f[0] if fi.var == 'Some' else None})
            elif s.var == 'Assert': stmts.append({'k': 'use', 'id': loc, 'def': None, 'reads': reads(ir, ex, ir.get(s, 'arg'))})
            else: stmts.append({'k': s.var, 'id': loc, 'def': None, 'reads': []})
        out.append({'index': ir.get(b, 'index'), 'stmts': stmts, 'preds': sorted(deref(x) for x in ir.get(b, 'predecessors').items), 'succs': sorted(deref(x) for x in ir.get(b, 'successors').items)})
    return out


def reads(ir, ex, e):
    e = deref(e)
    if isinstance(e, BoxV): e = deref(e.f[0])
    v = e.var
    if v == 'Variable': return [vkey(ir, ex, ir.get(e, 'name'))]
    if v == 'Number': return []
    if v == 'InfixOp': return reads(ir, ex, ir.get(e, 'lhe')) + reads(ir, ex, ir.get(e, 'rhe'))
    if v == 'Update':
        out = reads(ir, ex, ir.get(e, 'rhe'))
        for a in ir.get(e, 'access').items:
            if deref(a).var == 'ArrayAccess': out += reads(ir, ex, deref(a).f[0])
        return out + [vkey(ir, ex, ir.get(e, 'var'))]
    raise Unsupported('expression %s in the audit' % v)


def describe(sk, kinds):
    k = sk[0]
    if k == 'leaf': return kinds[sk[1]]
    if k == 'block': return '{' + '; '.join(describe(s, kinds) for s in sk[1]) + '}'
    if k == 'if': return 'if ' + describe(sk[2], kinds)
    if k == 'ifelse': return 'if ' + describe(sk[2], kinds) + ' else ' + describe(sk[3], kinds)
    return 'while ' + describe(sk[2], kinds)


def definitely_assigned(g):
    """classic forward must-analysis on the original blocks: every read of a local is preceded by a write on every path"""
    n = len(g); ALL = {'A', 'B'}
    out = [set(ALL) for _ in range(n)]
    changed = True
    okay = True
    while changed:
        changed = False
        for b in g:
            i = b['index']
            cur = {'A'} if i == 0 else (set.intersection(*[out[p] for p in b['preds']]) if b['preds'] else set(ALL))
            for s in b['stmts']:
                if s['def'] and s['def'][0] in ALL: cur = cur | {s['def'][0]}
            if cur != out[i]: out[i] = cur; changed = True
    for b in g:
        i = b['index']
        cur = {'A'} if i == 0 else (set.intersection(*[out[p] for p in b['preds']]) if b['preds'] else set(ALL))
        for s in b['stmts']:
            for r in s['reads']:
                # an element-wise update of a never assigned array creates its first version: not a read-before-write
                if r[0] in ALL and r[0] not in cur and not (s.get('updvar') is not None and r == s['updvar']): okay = False
            if s['def'] and s['def'][0] in ALL: cur = cur | {s['def'][0]}
    return okay


def audit(orig, g, declared):
    """-> list of (kind, message)"""
    out = []; n = len(g); LOC = ('A', 'B')
    F = lambda kind, msg: out.append((kind, msg))
    # preserved / phi-head
    if len(orig) != n: F('preserved', 'the number of blocks changed'); return out
    for bo, bn in zip(orig, g):
        seen_other = False; rest = []
        for s in bn['stmts']:
            if s['k'] == 'phi':
                if seen_other: F('phi-head', 'a phi statement stands behind an ordinary statement in block %d' % bn['index'])
            else: seen_other = True; rest.append(s)
        sig = lambda s: (s['k'], s['id'], s['def'][0] if s['def'] else None, tuple(r[0] for r in s['reads']))
        if [sig(s) for s in rest] != [sig(s) for s in bo['stmts']]:
            F('preserved', 'block %d no longer holds its original statements in order (%s vs %s)' % (bn['index'], [sig(s) for s in rest], [sig(s) for s in bo['stmts']]))
        if bo['preds'] != bn['preds'] or bo['succs'] != bn['succs']: F('preserved', 'edges of block %d changed' % bn['index'])
    # versioned
    for b in g:
        for s in b['stmts']:
            occ = list(s['reads']) + ([s['def']] if s['def'] else []) + list(s.get('args', []))
            for v in occ:
                if v[0] in LOC and v[1] is None: F('versioned', 'local %s without a version in statement %s of block %d' % (v[0], s['id'], b['index']))
                if v[0] == 's' and v[1] is not None: F('versioned', 'the signal carries a version in block %d' % b['index'])
    # single-def
    defs = {}
    for b in g:
        for k, s in enumerate(b['stmts']):
            d = s['def']
            if d and d[0] in LOC and d[1] is not None:
                if d in defs or d == ('A', 0): F('single-def', '%s.%s has two definitions (second in block %d)' % (d[0], d[1], b['index']))
                defs[d] = (b['index'], k)
    # versions without a defining statement that are read only as the array operand of an element-wise update
    implicit = set()
    for b in g:
        for s in b['stmts']:
            if s.get('updvar') is not None and s['updvar'] not in defs: implicit.add(s['updvar'])
    for b in g:
        for s in b['stmts']:
            for v in list(s['reads']) + list(s.get('args', [])):
                if v in implicit and not (v == s.get('updvar') and s['reads'].count(v) == 1): implicit.discard(v)
    # dominance
    pred = [[(j in g[i]['preds']) for j in range(n)] for i in range(n)]
    dom = D.dominance(pred, n)
    def defined_before(v, bi, k):
        if v == ('A', 0): return True
        if v not in defs: return False
        db, dk = defs[v]
        return (db == bi and dk < k) or (db != bi and dom[db][bi])
    for b in g:
        for k, s in enumerate(b['stmts']):
            for v in s['reads']:
                # the first element-wise update of an array reads the version that stands for its declaration (all zero)
                if v == s.get('updvar') and v not in defs and v in implicit: continue
                if v[0] in LOC and v[1] is not None and not defined_before(v, b['index'], k):
                    F('dominance', 'read of %s.%s in block %d (statement %s) is not dominated by a definition' % (v[0], v[1], b['index'], s['id']))
            for v in s.get('args', []):
                if v == ('A', 0): continue
                okp = v in defs and any(defs[v][0] == p or dom[defs[v][0]][p] for p in b['preds'])
                if not okp: F('dominance', 'phi argument %s.%s in block %d is not defined on an incoming path' % (v[0], v[1], b['index']))
    # declared
    for b in g:
        for s in b['stmts']:
            occ = list(s['reads']) + ([s['def']] if s['def'] else []) + list(s.get('args', []))
            for v in occ:
                if v[0] in LOC and v[1] is not None and v not in declared: F('declared', '%s.%s occurs in block %d but has no declaration' % (v[0], v[1], b['index']))
    stmt_decl = set()
    for b in g:
        for s in b['stmts']:
            if s['k'] == 'decl': stmt_decl |= set(s['names'])
    for v in defs:
        if v[0] == 'B' and v not in stmt_decl: F('declared', 'B.%s is written but not listed by its declaration statement' % v[1])
    if out: return out
    # path walk
    for decs in itertools.product([True, False], repeat=KDEC):
        cur = {'A': 0}; blk = 0; used = 0; steps = 0
        while blk is not None and steps < 40:
            b = g[blk]; nxt = None; steps += 1
            stop = False
            for s in b['stmts']:
                if s['k'] == 'phi':
                    v = s['def'][0]
                    if v in cur and (v, cur[v]) not in s['args']:
                        F('path', 'entering block %d the current version %s.%s is not an argument of the phi for it (args %s)' % (blk, v, cur[v], s['args'])); return out
                    cur[v] = s['def'][1]; continue
                for v in s['reads']:
                    if v[0] in LOC and v[0] in cur and cur[v[0]] != v[1]:
                        F('path', 'statement %s in block %d reads %s.%s but the assignment most recently executed on this path wrote %s.%s' % (s['id'], blk, v[0], v[1], v[0], cur[v[0]])); return out
                if s['def'] and s['def'][0] in LOC: cur[s['def'][0]] = s['def'][1]
                if s['k'] == 'branch':
                    if used >= KDEC: stop = True; break
                    d = decs[used]; used += 1
                    if d: nxt = s['t']
                    elif s['f'] is not None: nxt = s['f']
                    else:
                        other = [x for x in b['succs'] if x != s['t']]
                        nxt = other[0] if other else None
                    break
            else:
                nxt = b['succs'][0] if b['succs'] else None
            if stop: break
            blk = nxt
    return out


def bounds_text(tier):
    fam = family(tier)
    return '%d structured programs (if / if-else / while, braced bodies) with <= %d statements over the leaf alphabet %s, 2 symbolic identifier characters; paths with <= %d branch decisions' % (len(fam), 4 if tier == 'quick' else 5, KINDS, KDEC)


def check_order(pr):
    """the harness mirrors Cfg::into_ssa: compare the order of its callees with the MIR"""
    fn = pr.method(None, 'Cfg', 'into_ssa')
    text = ' '.join(' '.join(b) for b in fn.blocks.values())
    want = ['Environment::new', 'insert_phi_statements::<', 'insert_ssa_variables::<', 'with_version', 'update_declarations']
    pos = [text.find(w) for w in want]
    # block order in the MIR text is not execution order; presence is what can be checked cheaply
    return [] if all(p >= 0 for p in pos) else ['Cfg::into_ssa no longer calls %s: the C14 harness mirrors an outdated sequence' % [w for w, p in zip(want, pos) if p < 0]]


def validate_native(rep):
    """translator validation: fixed source programs through the real pipeline (native ssadump) and the same audit"""
    msgs = check_order(prog())
    nat = common.Native(common.build_replay('vr_analysis'))
    try:
        for src in NATIVE_PROGRAMS:
            out = nat.ask('ssadump ' + src.encode().hex(), timeout=30)
            if not out.startswith('['):
                msgs.append('native ssadump failed on a fixed program: %s' % out[:200]); continue
            g = json.loads(out)
            for b in g:
                for s in b['stmts']:
                    s['reads'] = [tuple(x) for x in s['reads']]; s['def'] = tuple(s['def']) if s['def'] else None
                    if 'args' in s: s['args'] = [tuple(x) for x in s['args']]
                    if s.get('updvar'): s['updvar'] = tuple(s['updvar'])
                    if s['k'] == 'decl': s['names'] = [tuple(x) for x in s['names']]
            orig = json.loads(json.dumps(g))
            declared = set()
            for b in g:
                for s in b['stmts']:
                    for v in list(s['reads']) + ([s['def']] if s['def'] else []) + list(s.get('args', [])): declared.add(tuple(v))
            # natively only the self-consistency of the converted graph is audited (no pre-SSA view): drop `preserved`
            for b in orig:
                b['stmts'] = [dict(s) for s in b['stmts'] if s['k'] != 'phi']
                for s in b['stmts']:
                    for key in ('reads',): s[key] = [tuple(x) for x in s[key]]
                    s['def'] = tuple(s['def']) if s['def'] else None
            bad = [m for m in audit(orig, g, declared) if m[0] not in ('declared',)]
            rep.validated += 1
            if bad: msgs.append('the audit rejects the real SSA form of a fixed program: %s' % (bad[:2],))
    finally:
        nat.close()
    return msgs


NATIVE_PROGRAMS = [
    'function f(A) { var B = 1; while (A < 3) { A = A + 1; if (A < 3) { B = 1; } } assert(B); return A; }',
    'function f(A) { var B[2]; if (A < 3) { B[0] = 1; } else { A = 1; } B[0] = 1; return B[0] + A; }',
    'function f(A) { var B = 0; while (A < 3) { while (A < 3) { B = B + 1; A = A + 1; } assert(B); } return B; }',
]
