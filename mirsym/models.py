"""Models of library functions *below* circomspect (std, num-bigint-dig, num-traits, log).

Every model is a python function (ex, args) -> value, registered by a regex on the callee
text as printed in MIR.  Conformance vectors for these models live in conformance.py.
"""
import re
import z3
from .values import *
from .engine import Unsupported, PathDead, PathEnd, INT_RANGE, utf8_len
from .rustdefs import simple_name

_REG = []     # (compiled regex, function)
_CACHE = {}


def model(pattern):
    rx = re.compile(pattern)

    def deco(f):
        _REG.append((rx, f)); return f
    return deco


def lookup(callee):
    if callee in _CACHE: return _CACHE[callee]
    norm = re.sub(r'^(?:[a-z_0-9]+::)+(?=<impl )', '', callee)
    cands = [norm]
    t = norm
    while True:
        m2 = re.match(r'[a-z_0-9]+::', t)
        if not m2: break
        t = t[m2.end():]; cands.append(t)
    for cand in cands:
        for rx, f in _REG:
            m = rx.fullmatch(cand)
            if m:
                if f.__code__.co_argcount == 3:
                    g = (lambda ex, args, f=f, m=m: f(ex, args, m)); g.__name__ = f.__name__
                else: g = f
                _CACHE[callee] = g
                return g
    _CACHE[callee] = None
    return None


def some(v, ty='Option'): return Enum(ty, 'Some', [v])
def none(ty='Option'): return Enum(ty, 'None', [])
def ok(v): return Enum('Result', 'Ok', [v])
def err(v): return Enum('Result', 'Err', [v])


# ------------------------------------------------------------------ uninterpreted arithmetic
I = z3.IntSort()
POW2 = z3.Function('pow2', I, I)
MODINV = z3.Function('modinv', I, I, I)
MODPOW = z3.Function('modpow', I, I, I, I)
BITAND = z3.Function('bitand', I, I, I)
BITOR = z3.Function('bitor', I, I, I)
BITXOR = z3.Function('bitxor', I, I, I)


def tdiv(a, b):
    """truncated division on Z (BigInt `/`)."""
    if isinstance(a, int) and isinstance(b, int):
        q = abs(a) // abs(b)
        return q if (a >= 0) == (b > 0) else -q
    a = zint(a); b = zint(b)
    # z3 `/` on Int is floor-ish (euclidean): a = b*q + r, 0 <= r < |b|
    q = a / b
    return z3.If(z3.Or(a >= 0, a == b * q), q, z3.If(b > 0, q + 1, q - 1))


def trem(a, b):
    if isinstance(a, int) and isinstance(b, int): return a - b * tdiv(a, b)
    return zint(a) - zint(b) * tdiv(a, b)


def big(v):
    v = deref(v)
    if isinstance(v, BigV): return v.t
    if isinstance(v, int) or is_sym(v): return v
    raise Unsupported('expected BigInt, got ' + repr(type(v).__name__))


def is_pow2_minus1(n): return isinstance(n, int) and n >= 0 and (n & (n + 1)) == 0


EXACT_BITS = {'width': None}      # a harness may ask for exact bit-vector semantics of & | ^ on operands in [0, 2^width)


def bit_op(op, a, b, known_nonneg=False):
    if isinstance(a, int) and isinstance(b, int):
        return {'and': a & b, 'or': a | b, 'xor': a ^ b}[op]
    w = EXACT_BITS['width']
    if w:
        x, y = z3.Int2BV(zint(a), w), z3.Int2BV(zint(b), w)
        return z3.BV2Int({'and': x & y, 'or': x | y, 'xor': x ^ y}[op])
    if op == 'and':
        for x, y in ((a, b), (b, a)):
            if isinstance(y, int) and y == 0: return 0
    f = {'and': BITAND, 'or': BITOR, 'xor': BITXOR}[op]
    return f(zint(a), zint(b))


@model(r'<&?BigInt as From<(i32|u8|u32|u64|usize|i64|u16|u128|i128)>>::from')
def bigint_from(ex, args): return BigV(args[0])


@model(r'<&?BigInt as (Add|Sub|Mul|Div|Rem|BitAnd|BitOr|BitXor)(?:<.*>)?>::(\w+)')
def bigint_binop(ex, args, m):
    op = m.group(1); a = big(args[0]); b = big(args[1])
    if op == 'Add': return BigV(simp(zint(a) + zint(b)) if is_sym(a) or is_sym(b) else a + b)
    if op == 'Sub': return BigV(simp(zint(a) - zint(b)) if is_sym(a) or is_sym(b) else a - b)
    if op == 'Mul': return BigV(simp(zint(a) * zint(b)) if is_sym(a) or is_sym(b) else a * b)
    if op in ('Div', 'Rem'):
        if is_sym(b): ex.oblige(b != 0, 'panic', 'BigInt %s by zero (num-bigint-dig panics: attempt to divide by zero)' % op)
        elif b == 0: ex.panic('BigInt %s by zero (num-bigint-dig panics: attempt to divide by zero)' % op)
        return BigV(simp(tdiv(a, b) if op == 'Div' else trem(a, b)))
    if op == 'BitAnd':
        # x & (2^n - 1) == x mod 2^n for x >= 0 : decided, not assumed
        for x, y in ((a, b), (b, a)):
            if is_pow2_minus1(y) and is_sym(x):
                if ex.decide(zint(x) >= 0): return BigV(simp(zint(x) % (y + 1)))
        return BigV(_bits_lemmas(ex, 'and', a, b, bit_op('and', a, b)))
    if op == 'BitOr': return BigV(_bits_lemmas(ex, 'or', a, b, bit_op('or', a, b)))
    if op == 'BitXor': return BigV(_bits_lemmas(ex, 'xor', a, b, bit_op('xor', a, b)))
    raise Unsupported(op)


def _bits_lemmas(ex, op, a, b, r):
    """facts about an exact bit-vector result that help the arithmetic solver (all of them theorems for a, b in [0, 2^w))"""
    if is_sym(r) and (is_sym(a) or is_sym(b)):
        a, b = zint(a), zint(b)
        if not (ex.decide(a >= 0) and ex.decide(b >= 0)): return r
        facts = [r >= 0]
        if op == 'and': facts += [r <= a, r <= b]
        if op == 'or': facts += [r >= a, r >= b, r <= a + b]
        if op == 'xor': facts += [r <= a + b]
        ex.assume(z3.And(*facts))
    return r


@model(r'<&*BigInt as (PartialOrd|PartialEq)(?:<.*>)?>::(\w+)')
def bigint_cmp(ex, args, m):
    a = big(args[0]); b = big(args[1]); op = m.group(2)
    if not is_sym(a) and not is_sym(b):
        return {'le': a <= b, 'lt': a < b, 'ge': a >= b, 'gt': a > b, 'eq': a == b, 'ne': a != b}[op]
    a = zint(a); b = zint(b)
    return simp({'le': a <= b, 'lt': a < b, 'ge': a >= b, 'gt': a > b, 'eq': a == b, 'ne': a != b}[op])


@model(r'<BigInt as Clone>::clone')
def bigint_clone(ex, args): return BigV(big(args[0]))


@model(r'<BigInt as ToPrimitive>::to_(usize|u64|u32|i64|u8)')
def bigint_to_prim(ex, args, m):
    a = big(args[0]); lo, hi = INT_RANGE[m.group(1)]
    if is_sym(a):
        if ex.decide(z3.And(a >= lo, a <= hi)): return some(a)
        return none()
    return some(a) if lo <= a <= hi else none()


@model(r'num_traits::pow(?:::pow)?::<BigInt>')
def nt_pow(ex, args):
    base = big(args[0]); e = args[1]
    lim = ex.h.pow_limit
    if lim is not None:
        ex.oblige(simp(zint(e) <= lim) if is_sym(e) else e <= lim, 'unbounded-work',
                  'num_traits::pow exponent must be bounded by %d (otherwise a 2^k-sized integer is computed)' % lim,
                  prefer=(zint(e) >= 2 ** 40) if is_sym(e) else None)
    if isinstance(base, int) and isinstance(e, int):
        if e > 100000: raise Unsupported('pow exponent too large to evaluate')
        return BigV(base ** e)
    if isinstance(base, int) and base == 2:
        ex.assume(POW2(zint(e)) > 0)
        return BigV(POW2(zint(e)))
    raise Unsupported('pow with symbolic base')


@model(r'BigInt::modpow')
def bigint_modpow(ex, args):
    b, e, m = big(args[0]), big(args[1]), big(args[2])
    ex.oblige(simp(zint(e) >= 0) if is_sym(e) else e >= 0, 'panic', 'BigInt::modpow: negative exponent (library panics)')
    ex.oblige(simp(zint(m) != 0) if is_sym(m) else m != 0, 'panic', 'BigInt::modpow: zero modulus (library panics)')
    if all(isinstance(x, int) for x in (b, e, m)): return BigV(pow(b, e, m))
    r = MODPOW(zint(b), zint(e), zint(m))
    ex.assume(z3.And(r >= 0, r < zint(m)))
    return BigV(r)


@model(r'<&BigInt as ModInverse<&BigInt>>::mod_inverse')
def bigint_modinv(ex, args):
    a, p = big(args[0]), big(args[1])
    if isinstance(a, int) and isinstance(p, int):
        try: return some(BigV(pow(a, -1, p)))
        except ValueError: return none()
    if not isinstance(p, int): raise Unsupported('mod_inverse with symbolic modulus')
    if not ex.h.notes.get('prime_modulus', True): raise Unsupported('mod_inverse model needs a prime modulus')
    # p prime: invertible iff a mod p != 0
    if ex.decide(zint(a) % p != 0):
        inv = MODINV(zint(a), z3.IntVal(p))
        ex.assume(z3.And(inv > 0, inv < p))
        return some(BigV(inv))
    return none()


@model(r'(?:num_bigint::)?BigInt::sign')
def bigint_sign(ex, args):
    a = big(args[0])
    if isinstance(a, int): return Enum('Sign', 'NoSign' if a == 0 else ('Plus' if a > 0 else 'Minus'))
    if ex.decide(a == 0): return Enum('Sign', 'NoSign')
    return Enum('Sign', 'Plus' if ex.decide(a > 0) else 'Minus')


@model(r'BigInt::to_radix_le')
def bigint_to_radix_le(ex, args):
    a = big(args[0]); radix = args[1]
    if radix != 2: raise Unsupported('to_radix_le radix != 2')
    if isinstance(a, int):
        sign = 'NoSign' if a == 0 else ('Plus' if a > 0 else 'Minus')
        mag = abs(a)
        digits = [int(c) for c in bin(mag)[2:][::-1]]
        return Struct('()', [Enum('Sign', sign), VecV(digits)])
    maxbits = ex.h.notes.get('max_bits')
    if maxbits is None: raise Unsupported('to_radix_le on symbolic value without max_bits note')
    # sign
    if ex.decide(a == 0): return Struct('()', [Enum('Sign', 'NoSign'), VecV([0])])
    if not ex.decide(a > 0): raise Unsupported('to_radix_le on negative symbolic value')
    # bit length L: 2^(L-1) <= a < 2^L
    L = None
    for l in range(1, maxbits + 1):
        if ex.decide(a < 2 ** l): L = l; break
    if L is None: raise PathDead()
    k = ex.h.notes.setdefault('_bitvars', 0); ex.h.notes['_bitvars'] = k + 1
    bits = [z3.Int('bit%d_%d' % (len(ex.decisions), i)) for i in range(L)]
    for b in bits: ex.assume(z3.And(b >= 0, b <= 1))
    ex.assume(bits[L - 1] == 1)
    ex.assume(a == z3.Sum([bits[i] * (2 ** i) for i in range(L)]))
    return Struct('()', [Enum('Sign', 'Plus'), VecV(list(bits))])


@model(r'BigInt::from_radix_le')
def bigint_from_radix_le(ex, args):
    sign = args[0]; buf = deref(args[1]); radix = args[2]
    if radix != 2: raise Unsupported('from_radix_le radix != 2')
    items = buf.elems() if isinstance(buf, SliceV) else buf.items
    # digits must be < radix, otherwise None
    okc = b_and(*[simp(zint(d) < 2) if is_sym(d) else d < 2 for d in items])
    if not ex.decide(okc) if is_sym(okc) else not okc: return none()
    if not items: ex.panic('BigInt::from_radix_le on an empty digit buffer (num-bigint-dig debug assertion)')
    tot = 0
    for i, d in enumerate(items): tot = tot + (zint(d) * (2 ** i) if is_sym(d) else d * 2 ** i)
    tot = simp(tot)
    sv = sign.var
    if sv == 'NoSign': return some(BigV(0))          # BigInt::from_biguint(NoSign, _) is zero
    if sv == 'Minus': return some(BigV(simp(-tot) if is_sym(tot) else -tot))
    return some(BigV(tot))


# ------------------------------------------------------------------ Option / Result / Try
@model(r'(?:std::option::)?Option::<.*>::ok_or::<.*>')
def opt_ok_or(ex, args):
    o = args[0]
    return ok(o.f[0]) if o.var == 'Some' else err(args[1])


@model(r'(?:std::option::)?Option::<.*>::(unwrap|expect)')
def opt_unwrap(ex, args, m):
    o = args[0]
    if o.var == 'Some': return o.f[0]
    msg = ''
    if len(args) > 1:
        s = deref(args[1]); msg = ': ' + (s.concrete() or '?') if isinstance(s, StrV) else ''
    ex.panic('Option::%s on None%s' % (m.group(1), msg))


@model(r'(?:std::result::)?Result::<.*>::(unwrap|expect)')
def res_unwrap(ex, args, m):
    o = args[0]
    if o.var == 'Ok': return o.f[0]
    ex.panic('Result::%s on Err' % m.group(1))


@model(r'(?:std::option::)?Option::<.*>::(is_some|is_none)')
def opt_is(ex, args, m):
    o = deref(args[0])
    return (o.var == 'Some') == (m.group(1) == 'is_some')


@model(r'(?:std::result::)?Result::<.*>::(is_ok|is_err)')
def res_is(ex, args, m):
    o = deref(args[0])
    return (o.var == 'Ok') == (m.group(1) == 'is_ok')


@model(r'(?:std::result::)?Result::<.*>::ok')
def res_ok(ex, args):
    o = args[0]
    return some(o.f[0]) if o.var == 'Ok' else none()


@model(r'(?:std::option::)?Option::<.*>::as_ref')
def opt_as_ref(ex, args):
    o = deref(args[0])
    return some(Ref(o.f, 0)) if o.var == 'Some' else none()


@model(r'(?:std::option::)?Option::<.*>::as_mut')
def opt_as_mut(ex, args):
    o = deref(args[0])
    return some(Ref(o.f, 0)) if o.var == 'Some' else none()


@model(r'(?:std::option::)?Option::<.*>::(cloned|copied)')
def opt_cloned(ex, args):
    o = args[0]
    return some(clone_val(deref(o.f[0]))) if o.var == 'Some' else none()


@model(r'(?:std::option::)?Option::<.*>::map::<.*>')
def opt_map(ex, args):
    o = args[0]
    if o.var == 'None': return none()
    return some(ex.call_value(args[1], [o.f[0]]))


@model(r'(?:std::option::)?Option::<.*>::and_then::<.*>')
def opt_and_then(ex, args):
    o = args[0]
    if o.var == 'None': return none()
    return ex.call_value(args[1], [o.f[0]])


@model(r'(?:std::option::)?Option::<.*>::unwrap_or')
def opt_unwrap_or(ex, args):
    o = args[0]
    return o.f[0] if o.var == 'Some' else args[1]


@model(r'(?:std::option::)?Option::<.*>::unwrap_or_default')
def opt_unwrap_or_default(ex, args):
    o = args[0]
    if o.var == 'Some': return o.f[0]
    return default_for(ex, ex.dest_ty())


@model(r'(?:std::option::)?Option::<.*>::(unwrap_or_else|map_or_else|map_or)::<.*>')
def opt_unwrap_or_else(ex, args, m):
    o = args[0]; k = m.group(1)
    if k == 'unwrap_or_else':
        return o.f[0] if o.var == 'Some' else ex.call_value(args[1], [])
    if k == 'map_or':
        return ex.call_value(args[2], [o.f[0]]) if o.var == 'Some' else args[1]
    return ex.call_value(args[2], [o.f[0]]) if o.var == 'Some' else ex.call_value(args[1], [])


@model(r'(?:std::option::)?Option::<.*>::take')
def opt_take(ex, args):
    r = args[0]; o = r.get(); r.set(none()); return o


@model(r'(?:std::result::)?Result::<.*>::map_err::<.*>')
def res_map_err(ex, args):
    o = args[0]
    if o.var == 'Ok': return o
    return err(ex.call_value(args[1], [o.f[0]]))


@model(r'(?:std::result::)?Result::<.*>::map::<.*>')
def res_map(ex, args):
    o = args[0]
    if o.var == 'Err': return o
    return ok(ex.call_value(args[1], [o.f[0]]))


@model(r'<(?:std::result::)?Result<.*> as Try>::branch')
def res_branch(ex, args):
    r = args[0]
    if r.var == 'Ok': return Enum('ControlFlow', 'Continue', [r.f[0]])
    return Enum('ControlFlow', 'Break', [Enum('Result', 'Err', [r.f[0]])])


@model(r'<(?:std::option::)?Option<.*> as Try>::branch')
def opt_branch(ex, args):
    r = args[0]
    if r.var == 'Some': return Enum('ControlFlow', 'Continue', [r.f[0]])
    return Enum('ControlFlow', 'Break', [none()])


@model(r'<(?:std::result::)?Result<.*> as FromResidual<.*>>::from_residual')
def res_from_residual(ex, args):
    r = args[0]
    # error conversion `From<E>`: identity unless the harness says otherwise (callee text keeps both types)
    return Enum('Result', 'Err', [r.f[0]])


@model(r'<(?:std::option::)?Option<.*> as FromResidual<.*>>::from_residual')
def opt_from_residual(ex, args): return none()


@model(r'<(u8|u16|u32|u64|usize|i32|i64) as From<(bool|u8|u16|u32|char)>>::from')
def int_from(ex, args):
    v = args[0]
    if isinstance(v, bool): return int(v)
    if z3.is_bool(v): return z3.If(v, 1, 0)
    return v


# ------------------------------------------------------------------ Vec / slices / ranges
def vec_of(v):
    v = deref(v)
    if isinstance(v, VecV): return v
    raise Unsupported('expected Vec, got ' + type(v).__name__)


@model(r'(?:std::vec::)?Vec::<.*>::new')
def vec_new(ex, args): return VecV([])


@model(r'(?:std::vec::)?Vec::<.*>::with_capacity')
def vec_with_capacity(ex, args): return VecV([])


@model(r'(?:std::vec::)?Vec::<.*>::len')
def vec_len(ex, args): return len(vec_of(args[0]).items)


@model(r'(?:std::vec::)?Vec::<.*>::is_empty')
def vec_is_empty(ex, args): return len(vec_of(args[0]).items) == 0


@model(r'(?:std::vec::)?Vec::<.*>::push')
def vec_push(ex, args): vec_of(args[0]).items.append(args[1]); return UNIT


@model(r'(?:std::vec::)?Vec::<.*>::pop')
def vec_pop(ex, args):
    v = vec_of(args[0])
    return some(v.items.pop()) if v.items else none()


@model(r'(?:std::vec::)?Vec::<.*>::append')
def vec_append(ex, args):
    a = vec_of(args[0]); b = vec_of(args[1])
    a.items.extend(b.items); del b.items[:]; return UNIT


@model(r'(?:std::vec::)?Vec::<.*>::clear')
def vec_clear(ex, args): del vec_of(args[0]).items[:]; return UNIT


@model(r'(?:std::vec::)?Vec::<.*>::insert')
def vec_insert(ex, args):
    v = vec_of(args[0]); i = ex.concretize(args[1], 0, len(v.items)); v.items.insert(i, args[2]); return UNIT


@model(r'(?:std::vec::)?Vec::<.*>::remove')
def vec_remove(ex, args):
    v = vec_of(args[0]); i = ex.concretize(args[1], 0, len(v.items) - 1); return v.items.pop(i)


@model(r'(?:std::vec::)?Vec::<.*>::(first|last)(?:_mut)?')
def vec_first(ex, args, m):
    v = vec_of(args[0])
    if not v.items: return none()
    return some(Ref(v.items, 0 if m.group(1) == 'first' else len(v.items) - 1))


@model(r'<(?:std::vec::)?Vec<.*> as (?:std::ops::)?(?:Deref|DerefMut|AsRef<.*>|Borrow<.*>)>::(deref|deref_mut|as_ref|borrow)')
def vec_deref(ex, args):
    v = vec_of(args[0]); return SliceV(v, 0, len(v.items))


@model(r'(?:std::vec::)?Vec::<.*>::(as_slice|as_mut_slice)')
def vec_as_slice(ex, args):
    v = vec_of(args[0]); return SliceV(v, 0, len(v.items))


@model(r'<(?:std::vec::)?Vec<.*> as (?:std::ops::)?(Index|IndexMut)<usize>>::(index|index_mut)')
def vec_index(ex, args):
    v = vec_of(args[0]); n = len(v.items); i = args[1]
    if is_sym(i):
        ex.oblige(z3.And(i >= 0, i < n), 'panic', 'Vec index out of bounds')
        i = ex.concretize(i, 0, n - 1)
    elif not (0 <= i < n): ex.panic('Vec index out of bounds: len %d index %d' % (n, i))
    return Ref(v.items, i)


@model(r'<(?:std::vec::)?Vec<.*> as (?:std::ops::)?(?:Index|IndexMut)<(?:std::ops::)?RangeFull>>::(?:index|index_mut)')
def vec_index_full(ex, args):
    v = vec_of(args[0]); return SliceV(v, 0, len(v.items))


@model(r'<(?:std::vec::)?Vec<.*> as Clone>::clone')
def vec_clone(ex, args): return clone_deep(ex, vec_of(args[0]))


@model(r'<(?:std::vec::)?Vec<.*> as Default>::default')
def vec_default(ex, args): return VecV([])


@model(r'(?:core::slice::|std::slice::)?<impl \[.*\]>::(len|is_empty)')
def slice_len(ex, args, m):
    s = as_slice(args[0]); n = len(s)
    return n if m.group(1) == 'len' else n == 0


@model(r'(?:core::slice::|std::slice::)?<impl \[.*\]>::(iter|iter_mut)')
def slice_iter(ex, args, m):
    s = as_slice(args[0]); return SeqIter([Ref(s.vec.items, i) for i in range(s.lo, s.hi)])


@model(r'(?:core::slice::|std::slice::)?<impl \[.*\]>::(first|last)(?:_mut)?')
def slice_first(ex, args, m):
    s = as_slice(args[0])
    if len(s) == 0: return none()
    return some(Ref(s.vec.items, s.lo if m.group(1) == 'first' else s.hi - 1))


@model(r'(?:core::slice::|std::slice::)?<impl \[.*\]>::to_vec')
def slice_to_vec(ex, args):
    s = as_slice(args[0]); return VecV([clone_deep(ex, x) for x in s.elems()])


@model(r'(?:core::slice::|std::slice::)?<impl \[.*\]>::into_vec::<.*>')
def slice_into_vec(ex, args):
    b = args[0]
    v = b.f[0] if isinstance(b, BoxV) else deref(b)
    if isinstance(v, SliceV): return VecV(list(v.elems()))
    return VecV(list(v.items))


@model(r'(?:core::slice::|std::slice::)?<impl \[.*\]>::contains')
def slice_contains(ex, args):
    s = as_slice(args[0]); x = deref(args[1])
    return simp(b_or(*[val_eq(ex, e, x) for e in s.elems()]))


def as_slice(v):
    v = deref(v)
    if isinstance(v, SliceV): return v
    if isinstance(v, VecV): return SliceV(v, 0, len(v.items))
    raise Unsupported('expected slice, got ' + type(v).__name__)


class SeqIter:
    """Any finite iterator whose elements are known per path (lazy adaptors are applied eagerly
    at construction by the adaptor models, in element order)."""
    rust_type = 'SeqIter'

    def __init__(self, items): self.items = list(items); self.i = 0
    def clone(self): s = SeqIter(self.items); s.i = self.i; return s
    def rest(self): return self.items[self.i:]


def seq_of(ex, v):
    """materialise an iterator / collection value into a python list of elements (consumes).
    An owned collection yields its elements, a borrowed one references to them."""
    borrowed = isinstance(v, Ref)
    v = deref(v) if not isinstance(v, SeqIter) else v
    if isinstance(v, SeqIter):
        r = v.rest(); v.i = len(v.items); return r
    if isinstance(v, RangeIter): return v.drain(ex)
    if isinstance(v, BoxV) and isinstance(deref(v.f[0]), (SeqIter, RangeIter)): return seq_of(ex, deref(v.f[0]))      # Box<dyn Iterator>
    if isinstance(v, Struct) and simple_name(v.ty) == 'Range': return RangeIter(v).drain(ex)
    if isinstance(v, VecV): return [Ref(v.items, i) for i in range(len(v.items))] if borrowed else list(v.items)
    if isinstance(v, SliceV): return [Ref(v.vec.items, i) for i in range(v.lo, v.hi)]
    if isinstance(v, Enum) and simple_name(v.ty) == 'Option': return list(v.f)
    if hasattr(v, 'iter_items'):
        items = v.iter_items(ex)
        if borrowed: return items
        out = []
        for it in items:
            it = deref(it)
            if isinstance(it, Struct) and it.ty == '()' and all(isinstance(x, Ref) for x in it.f): it = Struct('()', [x.get() for x in it.f])
            out.append(it)
        return out
    raise Unsupported('cannot iterate ' + type(v).__name__)


class RangeIter:
    def __init__(self, r): self.r = r      # Struct Range [start, end]
    def drain(self, ex):
        a, b = self.r.f
        out = []
        while True:
            c = simp(zint(a) < zint(b)) if is_sym(a) or is_sym(b) else a < b
            if not (ex.decide(c) if is_sym(c) else c): break
            out.append(a); a = simp(a + 1)
        self.r.f[0] = a
        return out


@model(r'<(?:std::ops::|core::ops::|ops::)?Range<\w+> as (?:std::iter::)?ExactSizeIterator>::len|(?:core::iter::range::)?<impl (?:std::iter::)?ExactSizeIterator for (?:std::ops::)?Range<\w+>>::len')
def range_len(ex, args):
    r = deref(args[0]); a, b = r.f[0], r.f[1]
    d = simp(zint(b) - zint(a)) if is_sym(a) or is_sym(b) else b - a
    if is_sym(d): return simp(z3.If(d >= 0, d, 0))
    return max(d, 0)


@model(r'<(?:std::ops::)?Range<\w+> as IntoIterator>::into_iter')
def range_into_iter(ex, args): return args[0]


@model(r'<(?:std::ops::)?Range<\w+> as Iterator>::next')
def range_next(ex, args):
    r = deref(args[0]); a, b = r.f
    c = simp(zint(a) < zint(b)) if is_sym(a) or is_sym(b) else a < b
    if ex.decide(c) if is_sym(c) else c:
        r.f[0] = simp(a + 1); return some(a)
    return none()


@model(r'<(?:std::ops::)?Range<\w+> as Iterator>::(rev|map|filter|collect|all|any)(?:::<.*>)?')
def range_adaptor(ex, args, m):
    items = RangeIter(deref(args[0])).drain(ex)
    return iter_adaptor(ex, m.group(1), SeqIter(items), args[1:], None)


@model(r'<&(?:mut )?(?:std::vec::)?Vec<.*> as IntoIterator>::into_iter')
def vecref_into_iter(ex, args):
    v = vec_of(args[0]); return SeqIter([Ref(v.items, i) for i in range(len(v.items))])


@model(r'<(?:std::vec::)?Vec<.*> as IntoIterator>::into_iter')
def vec_into_iter(ex, args): return SeqIter(list(vec_of(args[0]).items))


@model(r'<&(?:mut )?\[.*\] as IntoIterator>::into_iter')
def sliceref_into_iter(ex, args):
    s = as_slice(args[0]); return SeqIter([Ref(s.vec.items, i) for i in range(s.lo, s.hi)])


@model(r'<(?:std::option::)?Option<.*> as IntoIterator>::into_iter')
def opt_into_iter(ex, args): return SeqIter(list(args[0].f))


@model(r'<(?:std::)?(?:slice|vec|option|iter|collections::hash_map|collections::hash_set|collections::btree_map|collections::btree_set|str)::[\w:]+(?:<.*>)? as IntoIterator>::into_iter')
def iter_into_iter(ex, args): return args[0]


@model(r'<(?:SeqIter|(?:std::)?(?:slice|vec|option|iter|collections::hash_map|collections::hash_set|str|array)::[\w:]+(?:<.*>)?|(?:Map|Filter|Chain|Zip|Rev|Enumerate|Cloned|Copied|Skip|Take|Flatten|FlatMap|Peekable|FilterMap|StepBy)<.*>) as (?:Iterator|DoubleEndedIterator|ExactSizeIterator)>::(\w+)(?:::<.*>)?')
def iter_method(ex, args, m):
    it = deref(args[0]) if not isinstance(args[0], SeqIter) else args[0]
    return iter_adaptor(ex, m.group(1), it, args[1:], m)


@model(r"<(?:std::boxed::)?Box<dyn (?:std::iter::)?Iterator<.*>(?: \+ '\w+)?> as (?:Iterator|DoubleEndedIterator)>::(\w+)(?:::<.*>)?")
def boxed_iter_method(ex, args, m):
    it = deref(args[0])
    if isinstance(it, BoxV): it = deref(it.f[0])
    return iter_adaptor(ex, m.group(1), it, args[1:], m)


def iter_adaptor(ex, name, it, rest, m):
    if isinstance(it, RangeIter): it = SeqIter(it.drain(ex))
    if isinstance(it, Struct) and simple_name(it.ty) == 'Range': it = SeqIter(RangeIter(it).drain(ex))
    if not isinstance(it, SeqIter):
        if isinstance(it, CharsIter): return chars_adaptor(ex, name, it, rest)
        it = SeqIter(seq_of(ex, it))
    if name == 'next':
        if it.i < len(it.items):
            v = it.items[it.i]; it.i += 1; return some(v)
        return none()
    if name == 'next_back':
        if it.i < len(it.items): return some(it.items.pop())
        return none()
    items = it.rest(); it.i = len(it.items)
    if name == 'map': return SeqIter([ex.call_value(rest[0], [x]) for x in items])
    if name == 'filter':
        out = []
        for x in items:
            c = ex.call_value(rest[0], [Ref([x], 0)])
            if ex.decide(c) if is_sym(c) else c: out.append(x)
        return SeqIter(out)
    if name == 'filter_map':
        out = []
        for x in items:
            o = ex.call_value(rest[0], [x])
            if o.var == 'Some': out.append(o.f[0])
        return SeqIter(out)
    if name == 'flat_map':
        out = []
        for x in items: out += seq_of(ex, ex.call_value(rest[0], [x]))
        return SeqIter(out)
    if name == 'flatten':
        out = []
        for x in items: out += seq_of(ex, x)
        return SeqIter(out)
    if name in ('cloned', 'copied'): return SeqIter([clone_deep(ex, deref(x)) for x in items])
    if name == 'rev': return SeqIter(items[::-1])
    if name == 'enumerate': return SeqIter([Struct('()', [i, x]) for i, x in enumerate(items)])
    if name == 'chain': return SeqIter(items + seq_of(ex, rest[0]))
    if name == 'zip':
        other = seq_of(ex, rest[0]); return SeqIter([Struct('()', [a, b]) for a, b in zip(items, other)])
    if name == 'skip': return SeqIter(items[ex.concretize(rest[0], 0, len(items)):])
    if name == 'take': return SeqIter(items[:ex.concretize(rest[0], 0, 1 << 30)])
    if name == 'peekable': return SeqIter(items)
    if name == 'count': return len(items)
    if name == 'last': return some(items[-1]) if items else none()
    if name in ('all', 'any'):
        for x in items:
            c = ex.call_value(rest[0], [x])
            c = ex.decide(c) if is_sym(c) else c
            if name == 'all' and not c: return False
            if name == 'any' and c: return True
        return name == 'all'
    if name == 'find':
        for x in items:
            c = ex.call_value(rest[0], [Ref([x], 0)])
            if ex.decide(c) if is_sym(c) else c: return some(x)
        return none()
    if name == 'position':
        for i, x in enumerate(items):
            c = ex.call_value(rest[0], [x])
            if ex.decide(c) if is_sym(c) else c: return some(i)
        return none()
    if name == 'for_each':
        for x in items: ex.call_value(rest[0], [x])
        return UNIT
    if name == 'fold':
        acc = rest[0]
        for x in items: acc = ex.call_value(rest[1], [acc, x])
        return acc
    if name == 'max' or name == 'min':
        if not items: return none()
        best = items[0]
        for x in items[1:]:
            a = deref(best); b = deref(x)
            if not (isinstance(a, int) and isinstance(b, int)): raise Unsupported('max/min on symbolic')
            if (b >= a) if name == 'max' else (b < a): best = x
        return some(best)
    if name == 'sum':
        t = 0
        for x in items: t = t + deref(x)
        return simp(t)
    if name == 'collect': return collect(ex, items, ex.dest_ty() if m is None or True else None, m.group(0) if m else '')
    if name == 'unzip':
        return Struct('()', [VecV([x.f[0] for x in items]), VecV([x.f[1] for x in items])])
    if name == 'size_hint': return Struct('()', [len(items), some(len(items))])
    if name == 'len': return len(items)
    if name == 'partition':
        a = []; b = []
        for x in items:
            c = ex.call_value(rest[0], [Ref([x], 0)])
            (a if (ex.decide(c) if is_sym(c) else c) else b).append(x)
        return Struct('()', [VecV(a), VecV(b)])
    raise Unsupported('iterator method ' + name)


COLLECTORS = {}


def collect(ex, items, dty, callee):
    """`collect::<T>()`; T from the callee's turbofish or the destination type."""
    m = re.search(r'::collect::<(.*)>$', callee)
    ty = m.group(1) if m else (dty or '')
    s = simple_name(ty)
    if s == 'Vec' or ty.startswith('Vec<') or ty.startswith('std::vec::Vec<'): return VecV(list(items))
    if s in COLLECTORS: return COLLECTORS[s](ex, items, ty)
    if s == 'String':
        out = []
        for x in items:
            x = deref(x)
            if isinstance(x, StrV): out += x.chars
            else: out.append(x)
        return StrV(out)
    if s in ('Option', 'Result'):
        inner = re.match(r'(?:std::\w+::)?(?:Option|Result)<(.*)>$', ty.strip())
        vals = []
        for x in items:
            if x.var in ('None', 'Err'): return x if s == 'Result' else none()
            vals.append(x.f[0])
        innerty = inner.group(1) if inner else ''
        if s == 'Result': innerty = mirparse_split(innerty)[0]
        r = collect(ex, vals, innerty, '')
        return some(r) if s == 'Option' else ok(r)
    raise Unsupported('collect into ' + ty)


def mirparse_split(s):
    from .mirparse import split_top
    return split_top(s)


# ------------------------------------------------------------------ strings / chars
class CharsIter:
    rust_type = 'Chars'

    def __init__(self, s): self.s = s; self.i = 0
    def clone(self): c = CharsIter(self.s); c.i = self.i; return c


def as_str(v):
    v = deref(v)
    if isinstance(v, StrV): return v
    raise Unsupported('expected str, got ' + type(v).__name__)


@model(r'(?:std::string::)?String::(?:new|with_capacity)')
def string_new(ex, args): return StrV([])


@model(r'(?:std::string::)?String::push')
def string_push(ex, args): as_str(args[0]).chars.append(args[1]); return UNIT


@model(r'<(?:std::string::)?String as (?:std::ops::|core::ops::|ops::)?Add<&str>>::add')
def string_add(ex, args): return StrV(list(as_str(args[0]).chars) + list(as_str(args[1]).chars))


@model(r'(?:std::string::)?String::push_str')
def string_push_str(ex, args): as_str(args[0]).chars.extend(as_str(args[1]).chars); return UNIT


@model(r'(?:core::str::|std::str::)?<impl str>::chars')
def str_chars(ex, args): return CharsIter(as_str(args[0]))


@model(r"<(?:std::str::)?Chars<'_> as Iterator>::(\w+)(?:::<.*>)?")
def chars_method(ex, args, m):
    return chars_adaptor(ex, m.group(1), deref(args[0]), args[1:])


def chars_adaptor(ex, name, it, rest):
    if name == 'next':
        if it.i < len(it.s.chars):
            c = it.s.chars[it.i]; it.i += 1; return some(c)
        return none()
    if name == 'peekable': return it
    items = it.s.chars[it.i:]; it.i = len(it.s.chars)
    return iter_adaptor(ex, name, SeqIter(items), rest, None)


@model(r'(?:core::str::|std::str::)?<impl str>::char_indices')
def str_char_indices(ex, args):
    """(byte offset, char) pairs; the offsets are sums of the UTF-8 widths of the preceding chars (decided per char)"""
    cs = as_str(args[0]).chars; out = []; off = 0
    for c in cs:
        out.append(Struct('()', [off, c])); off += utf8_width(ex, c)
    return SeqIter(out)


@model(r'(?:std::string::)?String::pop')
def string_pop(ex, args):
    cs = as_str(args[0]).chars
    return some(cs.pop()) if cs else none()


@model(r'(?:core::char::methods::|std::char::)?<impl char>::len_utf8')
def char_len_utf8(ex, args):
    c = args[0]
    if isinstance(c, int): return utf8_len(c)
    if ex.decide(c < 0x80): return 1
    if ex.decide(c < 0x800): return 2
    if ex.decide(c < 0x10000): return 3
    return 4


@model(r'(?:core::str::|std::str::)?<impl str>::len')
def str_len(ex, args): return ex.str_len(as_str(args[0]))


@model(r'(?:std::string::)?String::len')
def string_len(ex, args): return ex.str_len(as_str(args[0]))


@model(r'(?:core::str::|std::str::)?<impl str>::is_empty|(?:std::string::)?String::is_empty')
def str_is_empty(ex, args): return len(as_str(args[0]).chars) == 0


@model(r'<(?:std::string::)?String as (?:std::ops::)?(?:Deref|AsRef<str>|Borrow<str>)>::(deref|as_ref|borrow)|(?:std::string::)?String::as_str')
def string_deref(ex, args): return as_str(args[0])


@model(r'<(?:std::string::)?String as Clone>::clone|<str as ToOwned>::to_owned|<str as ToString>::to_string|<(?:std::string::)?String as ToString>::to_string|<(?:std::string::)?String as From<&str>>::from|<&str as Into<(?:std::string::)?String>>::into|(?:core::str::|std::str::)?<impl str>::to_string|<&str as ToString>::to_string|<(?:std::string::)?String as From<&(?:std::string::)?String>>::from|(?:core::str::|std::str::|alloc::str::)?<impl str>::to_owned')
def str_to_string(ex, args): return StrV(as_str(args[0]).chars)


@model(r'<(?:std::string::)?String as Default>::default')
def string_default(ex, args): return StrV([])


def str_eq(ex, a, b):
    a = as_str(a); b = as_str(b)
    if len(a.chars) != len(b.chars):
        # lengths are in chars; symbolic chars of different utf8 widths can still differ only in content
        return False
    return simp(b_and(*[eq(x, y) for x, y in zip(a.chars, b.chars)]))


@model(r'<&*(?:std::string::)?(?:String|str) as PartialEq(?:<&*(?:std::string::)?(?:String|str)>)?>::(eq|ne)')
def string_eq(ex, args, m):
    r = str_eq(ex, args[0], args[1])
    return r if m.group(1) == 'eq' else simp(b_not(r))


# ------------------------------------------------------------------ misc std
@model(r'(?:std::boxed::)?Box::<.*>::new')
def box_new(ex, args): return BoxV(args[0])


@model(r'<(?:std::boxed::)?Box<.*> as Clone>::clone')
def box_clone(ex, args): return BoxV(clone_deep(ex, deref(args[0]).f[0]))


@model(r'<(?:std::boxed::)?Box<.*> as (?:Deref|DerefMut|AsRef<.*>)>::(deref|deref_mut|as_ref)')
def box_deref(ex, args): return Ref(deref(args[0]).f, 0)


@model(r'(?:std::mem::|core::mem::)?(replace|take|swap)::<.*>')
def mem_replace(ex, args, m):
    k = m.group(1)
    if k == 'replace':
        old = args[0].get(); args[0].set(args[1]); return old
    if k == 'swap':
        a = args[0].get(); args[0].set(args[1].get()); args[1].set(a); return UNIT
    old = args[0].get(); args[0].set(default_for(ex, ex.dest_ty())); return old


@model(r'(?:std::mem::|core::mem::)?drop::<.*>')
def mem_drop(ex, args): return UNIT


@model(r'(?:log::)?max_level|log::__private_api::loc|log::__private_api::enabled|log::__private_api::log(?:::<.*>)?|log::__private_api::log_impl')
def log_any(ex, args):
    # logging is compiled in but switched off in the model: max_level() == Off
    return Enum('LevelFilter', 'Off')


@model(r'<(?:log::)?Level(?:Filter)? as PartialOrd(?:<(?:log::)?Level(?:Filter)?>)?>::(le|lt|ge|gt)')
def log_cmp(ex, args, m=None): return False


@model(r'(?:std::fmt::|core::fmt::)?Arguments::<.*>::(new_const|new_v1|new_v1_formatted|from_str|new|from_str_nonconst)(?:::<.*>)?')
def fmt_arguments(ex, args, m):
    """fmt::Arguments as (template, argument list); the template is the byte-coded form of this nightly."""
    a0 = deref(args[0]) if args else None
    tmpl = None
    if isinstance(a0, StrV): tmpl = a0.concrete()
    elif isinstance(a0, VecV): tmpl = bytes(x for x in a0.items if isinstance(x, int))
    elif isinstance(a0, SliceV): tmpl = bytes(x for x in a0.elems() if isinstance(x, int))
    fargs = []
    if len(args) > 1:
        a1 = deref(args[1])
        items = a1.items if isinstance(a1, VecV) else (a1.elems() if isinstance(a1, SliceV) else [])
        fargs = [x.data if isinstance(x, Opaque) else x for x in items]
    return Opaque('fmt', (tmpl, fargs))


@model(r'(?:core::fmt::rt::|std::fmt::)?Argument::<.*>::new_(lower_hex)::<.*>')
def fmt_argument(ex, args, m): return Opaque('fmtarg', args[0])


@model(r'(?:std::fmt::|alloc::fmt::)?format|(?:std::fmt::|alloc::fmt::)?format::format_inner|std::fmt::format|alloc::fmt::format')
def fmt_format(ex, args):
    a = args[0]
    data = a.data if isinstance(a, Opaque) else None
    if data is None: return Opaque('formatted', None)
    if ex.h.notes.get('render_format'):
        f = FormatterV(); render_args(ex, data, f); return StrV(f.buf)
    return Opaque('formatted', data)


@model(r'(?:std::hint::|core::hint::)?must_use::<.*>')
def hint_must_use(ex, args): return args[0]


@model(r'<(?:u8|u16|u32|u64|usize|i32|i64|isize) as Default>::default')
def int_default(ex, args): return 0


@model(r'<(?:std::ops::|core::ops::|ops::)?Range<(?:u8|u16|u32|u64|usize|i32|i64|isize)> as Default>::default')
def range_default(ex, args): return Struct('ops::Range', [0, 0])


# ---- codespan_reporting::diagnostic::Label { style, file_id, range, message }
@model(r'(?:codespan_reporting::diagnostic::)?Label::<.*>::(primary|secondary)(?:::<.*>)?')
def label_new(ex, args, m): return Struct('Label', [Opaque('style', m.group(1)), args[0], args[1], StrV([])])


@model(r'(?:codespan_reporting::diagnostic::)?Label::<.*>::with_message(?:::<.*>)?')
def label_with_message(ex, args):
    l = deref(args[0]); l.f[3] = args[1]; return l


# ---- RefCell: single-threaded interior mutability; the borrow flag is not modelled (a double borrow would panic natively)
@model(r'(?:std::cell::|core::cell::|cell::)?RefCell::<.*>::new')
def refcell_new(ex, args): return Struct('RefCell', [args[0]])


@model(r'(?:std::cell::|core::cell::|cell::)?RefCell::<.*>::(borrow|borrow_mut)')
def refcell_borrow(ex, args, m): return Ref(deref(args[0]).f, 0)


@model(r"<(?:std::cell::|core::cell::|cell::)?(?:RefMut|Ref)<'_, .*> as (?:std::ops::|core::ops::|ops::)?(?:Deref|DerefMut)>::(deref|deref_mut)")
def refcell_deref(ex, args, m):
    a = args[0]
    return a.get() if isinstance(a, Ref) and isinstance(a.get(), Ref) else a


@model(r'<bool as Default>::default')
def bool_default(ex, args): return False


@model(r'<(?:std::option::)?Option<.*> as Default>::default')
def opt_default(ex, args): return none()


# ------------------------------------------------------------------ derived trait models (structural)
def val_eq(ex, a, b):
    a = deref(a); b = deref(b)
    if isinstance(a, (int, bool)) or is_sym(a): return simp(eq(a, b))
    if isinstance(a, BigV): return simp(eq(a.t, b.t))
    if isinstance(a, StrV): return str_eq(ex, a, b)
    if isinstance(a, Enum):
        if not isinstance(a.var, str) or not isinstance(b.var, str):
            return simp(eq(ex.discriminant(a), ex.discriminant(b)))
        if a.var != b.var: return False
        return simp(b_and(*[val_eq_dispatch(ex, x, y) for x, y in zip(a.f, b.f)]))
    if isinstance(a, Struct):
        return simp(b_and(*[val_eq_dispatch(ex, x, y) for x, y in zip(a.f, b.f)]))
    if isinstance(a, BoxV): return val_eq_dispatch(ex, a.f[0], b.f[0])
    if isinstance(a, (VecV, SliceV)):
        xa = a.items if isinstance(a, VecV) else a.elems(); xb = b.items if isinstance(b, VecV) else b.elems()
        if len(xa) != len(xb): return False
        return simp(b_and(*[val_eq_dispatch(ex, x, y) for x, y in zip(xa, xb)]))
    if hasattr(a, 'eq_model'): return a.eq_model(ex, b)
    if isinstance(a, Opaque): return a is b or (a.tag == b.tag and a.data == b.data)
    raise Unsupported('structural eq on ' + type(a).__name__)


def val_eq_dispatch(ex, a, b):
    """equality of a field: use the type's own PartialEq when it is hand-written."""
    a = deref(a); b = deref(b)
    ty = getattr(a, 'ty', None)
    if ty and isinstance(a, (Struct, Enum)):
        infos = ex.prog.method_info('PartialEq', simple_name(ty), 'eq')
        if len(infos) > 1:
            from .engine import _qual_match
            q = [i for i in infos if _qual_match(ty, i[1])]
            if len(q) == 1: infos = q
        if len(infos) == 1 and not infos[0][4]:
            return ex.call_mir(infos[0][0], [Ref([a], 0), Ref([b], 0)])
    return val_eq(ex, a, b)


def clone_deep(ex, v):
    """Clone through the type's own impl when hand-written, structurally when derived."""
    return clone_val(v)


def default_for(ex, ty):
    if ty is None: raise Unsupported('Default without type')
    t = ty.strip(); s = simple_name(t)
    if s in ('HashMap', 'BTreeMap', 'HashSet', 'BTreeSet'): return COLLECTORS[s](ex, [], t)
    if t in INT_RANGE: return 0
    if t == 'bool': return False
    if s == 'Vec': return VecV([])
    if s == 'String': return StrV([])
    if s == 'Option': return none()
    if s in COLLECTORS: return COLLECTORS[s](ex, [], t)
    infos = ex.prog.method_info('Default', s, 'default')
    if len(infos) > 1:
        from .engine import _qual_match
        q = [i for i in infos if _qual_match(t, i[1])]
        if len(q) == 1: infos = q
    if len(infos) == 1: return ex.call_mir(infos[0][0], [])
    fields = ex.prog.defs.struct_fields(s)
    raise Unsupported('Default for ' + ty)


def derived_model(trait, method):
    if trait == 'Clone' and method == 'clone':
        return lambda ex, args: clone_deep(ex, deref(args[0]))
    if trait == 'PartialEq' and method in ('eq', 'ne'):
        if method == 'eq': return lambda ex, args: val_eq(ex, args[0], args[1])
        return lambda ex, args: simp(b_not(val_eq(ex, args[0], args[1])))
    if trait in ('Eq', 'StructuralPartialEq', 'Copy'): return lambda ex, args: UNIT
    return None


@model(r'<(?:u8|u16|u32|u64|usize|i8|i16|i32|i64|isize|bool|char) as Clone>::clone')
def prim_clone(ex, args): return deref(args[0])


@model(r'<&?(?:u8|u16|u32|u64|usize|i8|i16|i32|i64|isize|bool|char) as PartialEq(?:<.*>)?>::(eq|ne)')
def prim_eq(ex, args, m):
    r = simp(eq(deref(args[0]), deref(args[1])))
    return r if m.group(1) == 'eq' else simp(b_not(r))


@model(r'<&?(?:u8|u16|u32|u64|usize|i8|i16|i32|i64|isize|char) as PartialOrd(?:<.*>)?>::(lt|le|gt|ge)')
def prim_ord(ex, args, m):
    a = deref(args[0]); b = deref(args[1])
    if is_sym(a) or is_sym(b): a = zint(a); b = zint(b)
    return simp({'lt': a < b, 'le': a <= b, 'gt': a > b, 'ge': a >= b}[m.group(1)])


@model(r'(?:std::cmp::|core::cmp::)?(max|min)::<(?:u8|u16|u32|u64|usize|i32|i64)>|<(?:u8|u16|u32|u64|usize|i32|i64) as Ord>::(max|min)')
def prim_maxmin(ex, args, m):
    k = m.group(1) or m.group(2); a, b = args
    if isinstance(a, int) and isinstance(b, int): return max(a, b) if k == 'max' else min(a, b)
    a = zint(a); b = zint(b)
    return simp(z3.If(a >= b, a, b) if k == 'max' else z3.If(a <= b, a, b))


@model(r'<&?(?:std::slice::IterMut|std::slice::Iter)<.*> as Iterator>::next')
def sliceiter_next(ex, args): return iter_adaptor(ex, 'next', deref(args[0]), [], None)


@model(r'BigInt::bits')
def bigint_bits(ex, args):
    a = big(args[0])
    if isinstance(a, int): return abs(a).bit_length()
    maxbits = ex.h.notes.get('max_bits_any', 260)
    n = ex.h.notes.get('_nbits', 0); ex.h.notes['_nbits'] = n + 1
    L = z3.Int('bits%d_%d' % (len(ex.decisions), n))
    mag = z3.If(a >= 0, a, -a)
    ex.assume(z3.And(L >= 0, z3.And(*[(L <= j) == (mag < 2 ** j) for j in range(0, maxbits + 1)])))
    return L


@model(r'<&*(?:num_bigint::)?Sign as PartialEq>::(eq|ne)|<&*(?:std::cmp::)?Ordering as PartialEq>::(eq|ne)|<&*(?:std::option::)?Option<.*> as PartialEq>::(eq|ne)|<&*(?:std::result::)?Result<.*> as PartialEq>::(eq|ne)|<&*\(.*\) as PartialEq>::(eq|ne)|<&*(?:std::vec::)?Vec<.*> as PartialEq(?:<.*>)?>::(eq|ne)|<&*\[.*\] as PartialEq(?:<.*>)?>::(eq|ne)')
def lib_struct_eq(ex, args, m):
    r = val_eq(ex, args[0], args[1])
    return r if 'eq' in m.groups() else simp(b_not(r))


@model(r"(?:std::iter::)?Peekable::<.*>::peek")
def peekable_peek(ex, args):
    it = deref(args[0])
    if isinstance(it, CharsIter):
        if it.i < len(it.s.chars): return some(Ref(it.s.chars, it.i))
        return none()
    if isinstance(it, SeqIter):
        if it.i < len(it.items): return some(Ref(it.items, it.i))
        return none()
    raise Unsupported('peek on ' + type(it).__name__)


@model(r'(?:core::str::|std::str::)?<impl str>::as_bytes|(?:std::string::)?String::as_bytes')
def str_as_bytes(ex, args):
    s = as_str(args[0])
    out = []
    for c in s.chars:
        if isinstance(c, int): out += list(chr(c).encode('utf-8'))
        else:
            ex.oblige(c < 128, 'model-domain', 'as_bytes model covers ASCII for symbolic chars')
            out.append(c)
    return SliceV(VecV(out, 'bytes'), 0, len(out))


def digit_value(c, radix):
    """(is_digit, value) for a byte (python int or z3 Int)"""
    if isinstance(c, int):
        ch = chr(c)
        try: v = int(ch, 36)
        except ValueError: return False, 0
        return (v < radix and ch.isalnum()), v
    isd = z3.And(c >= 48, c <= 57, c - 48 < radix)
    val = c - 48
    if radix > 10:
        lo = z3.And(c >= 97, c - 87 < radix, c <= 122); up = z3.And(c >= 65, c - 55 < radix, c <= 90)
        return z3.Or(isd, lo, up), z3.If(isd, c - 48, z3.If(lo, c - 87, c - 55))
    return isd, val


@model(r'BigInt::parse_bytes')
def bigint_parse_bytes(ex, args):
    buf = as_slice(args[0]); radix = args[1]
    items = buf.elems()
    if all(isinstance(b, int) for b in items):
        try: txt = bytes(items).decode('utf-8')
        except UnicodeDecodeError: return none()
        txt2 = txt.replace('_', '')
        try:
            if txt2 in ('', '+', '-'): return none()
            return some(BigV(int(txt2, radix)))
        except ValueError: return none()
    # symbolic digits (no sign / underscore handling: an obligation of the model's domain)
    if not items: return none()
    okc = []; val = 0
    for b in items:
        d, v = digit_value(b, radix)
        okc.append(d); val = val * radix + v
    allok = simp(b_and(*okc))
    if ex.decide(allok) if is_sym(allok) else allok: return some(BigV(simp(val)))
    ex.oblige(simp(b_and(*[b_and(eq(b, 43) is False or simp(b_not(eq(b, 43))), simp(b_not(eq(b, 45))), simp(b_not(eq(b, 95)))) for b in items])), 'model-domain', 'parse_bytes model: no sign or underscore among symbolic bytes')
    return none()


@model(r'<(u8|u16|u32|u64|usize) as (?:std::str::)?FromStr>::from_str')
def uint_from_str(ex, args, m):
    s = as_str(args[0]); lo, hi = INT_RANGE[m.group(1)]
    if not s.chars: return err(Opaque('ParseIntError', 'Empty'))
    okc = []; val = 0
    for c in s.chars:
        d, v = digit_value(c, 10)
        okc.append(d); val = val * 10 + v
    allok = simp(b_and(*okc))
    if not (ex.decide(allok) if is_sym(allok) else allok): return err(Opaque('ParseIntError', 'InvalidDigit'))
    val = simp(val)
    fits = simp(zint(val) <= hi) if is_sym(val) else val <= hi
    if ex.decide(fits) if is_sym(fits) else fits: return ok(val)
    return err(Opaque('ParseIntError', 'PosOverflow'))


@model(r'(?:std::result::)?Result::<.*>::unwrap_or')
def res_unwrap_or(ex, args):
    o = args[0]
    return o.f[0] if o.var == 'Ok' else args[1]


@model(r'<\[.*\] as (?:std::ops::)?Index<(?:std::ops::)?RangeFrom<usize>>>::index|(?:core::slice::index::)?<impl (?:std::ops::)?Index<(?:std::ops::)?RangeFrom<usize>> for \[.*\]>::index')
def slice_index_from(ex, args):
    s = as_slice(args[0]); r = deref(args[1]); a = r.f[0]
    a = ex.concretize(a, 0, len(s) + 1) if is_sym(a) else a
    if a > len(s): ex.panic('range start index %d out of range for slice of length %d' % (a, len(s)))
    return SliceV(s.vec, s.lo + a, s.hi)


@model(r'(?:std::cmp::|core::cmp::)?(max|min)::<(.*)>|<(.*) as Ord>::(max|min)')
def generic_maxmin(ex, args, m):
    """std::cmp::max/min through the type's own Ord::cmp (max returns the second argument when equal,
    min the first)."""
    from .engine import _dynamic_dispatch
    k = m.group(1) or m.group(4)
    a, b = args
    c = _dynamic_dispatch(ex, 'Ord', 'cmp', 'Ord::cmp')(ex, [Ref([a], 0), Ref([b], 0)])
    d = ex.discriminant(c)
    if is_sym(d): raise Unsupported('symbolic Ordering in max/min')
    if k == 'max': return a if d == 1 else b
    return b if d == 1 else a


@model(r'<num_bigint::BigInt as Zero>::is_zero|<BigInt as Zero>::is_zero|<BigInt as num_traits::Zero>::is_zero')
def bigint_is_zero(ex, args):
    a = big(args[0])
    return simp(eq(a, 0))


@model(r'<&?bool as (?:std::ops::)?Not>::not')
def bool_not_model(ex, args): return simp(b_not(deref(args[0])))


@model(r'(?:std::vec::|alloc::vec::)?from_elem::<.*>')
def vec_from_elem(ex, args):
    n = ex.concretize(args[1], 0, 1 << 20)
    return VecV([clone_val(args[0]) for _ in range(n)])


@model(r'<&*(.+) as PartialOrd(?:<.*>)?>::(lt|le|gt|ge)')
def generic_partial_ord(ex, args, m):
    """default methods of PartialOrd through the type's own partial_cmp"""
    from .engine import _dynamic_dispatch
    a, b = args
    # `<&T as PartialOrd>` compares through one more reference level
    while isinstance(a, Ref) and isinstance(a.get(), Ref): a = a.get()
    while isinstance(b, Ref) and isinstance(b.get(), Ref): b = b.get()
    o = _dynamic_dispatch(ex, 'PartialOrd', 'partial_cmp', 'PartialOrd::partial_cmp')(ex, [a, b])
    if o.var == 'None': return False
    d = ex.discriminant(o.f[0])
    k = m.group(2)
    if is_sym(d): return simp({'lt': d < 0, 'le': d <= 0, 'gt': d > 0, 'ge': d >= 0}[k])
    return {'lt': d < 0, 'le': d <= 0, 'gt': d > 0, 'ge': d >= 0}[k]


@model(r'<(?:std::vec::)?Vec<.*> as Extend<.*>>::extend::<.*>')
def vec_extend(ex, args):
    v = vec_of(args[0]); v.items.extend(seq_of(ex, args[1])); return UNIT


@model(r'(?:std::vec::)?Vec::<.*>::extend_from_slice')
def vec_extend_from_slice(ex, args):
    v = vec_of(args[0]); v.items.extend(clone_val(x) for x in as_slice(args[1]).elems()); return UNIT


class UninitWrap:
    """MaybeUninit<T> { uninit: (), value: ManuallyDrop<MaybeDangling<T>> }: three transparent layers over one cell."""
    def __init__(self, cell, depth=3): self.cell = cell; self.depth = depth
    def field(self, i):
        if self.depth <= 1: return self.cell, 0
        return [UninitWrap(self.cell, self.depth - 1)], 0
    def clone(self): return self


@model(r'(?:std::boxed::)?Box::<.*>::new_uninit')
def box_new_uninit(ex, args): return BoxV(UninitWrap([None]))


@model(r'(?:std::boxed::)?box_assume_init_into_vec_unsafe::<.*>')
def box_into_vec(ex, args):
    b = args[0]; w = b.f[0]
    v = w.cell[0] if isinstance(w, UninitWrap) else w
    return VecV(list(v.items))


@model(r'<.* as Drop>::drop|(?:std::ptr::|core::ptr::)?drop_in_place::<.*>|(?:alloc::alloc::|std::alloc::)?(?:box_free|dealloc)(?:::<.*>)?')
def drop_glue(ex, args): return UNIT


def _cmp_vals(ex, a, b):
    """-1/0/1 for ints and concrete strings"""
    a = deref(a); b = deref(b)
    if isinstance(a, StrV) and isinstance(b, StrV):
        x, y = a.concrete(), b.concrete()
        if x is None or y is None: raise Unsupported('ordering of symbolic strings')
        xb, yb = x.encode('utf-8'), y.encode('utf-8')
        return (xb > yb) - (xb < yb)
    if isinstance(a, int) and isinstance(b, int): return (a > b) - (a < b)
    raise Unsupported('ordering of ' + type(a).__name__)


@model(r'(?:core::slice::|std::slice::)?<impl \[.*\]>::(sort|sort_unstable)')
def slice_sort(ex, args, m):
    import functools
    s = as_slice(args[0]); items = s.elems()
    items.sort(key=functools.cmp_to_key(lambda a, b: _cmp_vals(ex, a, b)))
    s.vec.items[s.lo:s.hi] = items
    return UNIT


@model(r'(?:core::slice::|std::slice::)?<impl \[.*\]>::binary_search')
def slice_binary_search(ex, args):
    """the real algorithm (std's), so that an unsorted slice gives std's answer"""
    s = as_slice(args[0]); items = s.elems(); x = args[1]
    size = len(items)
    if size == 0: return err(0)
    base = 0
    while size > 1:
        half = size // 2; mid = base + half
        c = _cmp_vals(ex, items[mid], x)
        base = base if c > 0 else mid
        size -= half
    c = _cmp_vals(ex, items[base], x)
    if c == 0: return ok(base)
    return err(base + (1 if c < 0 else 0))


@model(r'<(?:std::vec::)?Vec<.*> as (?:std::ops::)?DerefMut>::deref_mut')
def vec_deref_mut(ex, args):
    v = vec_of(args[0]); return SliceV(v, 0, len(v.items))


@model(r'(?:core::slice::|std::slice::)?<impl \[.*\]>::(get|get_mut)::<usize>')
def slice_get(ex, args, m):
    s = as_slice(args[0]); i = args[1]; n = len(s)
    if is_sym(i):
        if not ex.decide(z3.And(i >= 0, i < n)): return none()
        i = ex.concretize(i, 0, n - 1)
    elif not (0 <= i < n): return none()
    return some(Ref(s.vec.items, s.lo + i))


@model(r'<&*(?:std::ops::)?Range<.*> as PartialEq>::(eq|ne)')
def range_eq(ex, args, m):
    r = val_eq(ex, args[0], args[1])
    return r if m.group(1) == 'eq' else simp(b_not(r))


@model(r'<&*(?:std::boxed::)?Box<.*> as PartialEq>::(eq|ne)')
def box_eq(ex, args, m):
    a = deref(args[0]); b = deref(args[1])
    r = val_eq_dispatch(ex, a.f[0] if isinstance(a, BoxV) else a, b.f[0] if isinstance(b, BoxV) else b)
    return r if m.group(1) == 'eq' else simp(b_not(r))


def utf8_width(ex, c):
    if isinstance(c, int): return len(chr(c).encode('utf-8'))
    if ex.decide(c < 0x80): return 1
    if ex.decide(c < 0x800): return 2
    if ex.decide(c < 0x10000): return 3
    return 4


@model(r'<(?:std::string::)?String as (?:std::ops::)?Index<(?:std::ops::)?Range(?:From|To)?<usize>>>::index|<str as (?:std::ops::)?Index<(?:std::ops::)?Range(?:From|To)?<usize>>>::index|(?:core::str::traits::)?<impl (?:std::ops::)?Index<.*Range(?:From|To)?<usize>> for str>::index')
def str_index_range(ex, args):
    """&s[a..b] with BYTE offsets over a string of code points: panics unless a <= b <= len and both are char boundaries"""
    sv = as_str(args[0]); r = deref(args[1]); n = len(sv.chars)
    ws = [utf8_width(ex, c) for c in sv.chars]
    bounds = [0]
    for w in ws: bounds.append(bounds[-1] + w)
    tyname = simple_name(getattr(r, 'ty', '') or '')
    lo = r.f[0] if tyname in ('Range', 'RangeFrom') else 0
    hi = (r.f[1] if tyname == 'Range' else r.f[0]) if tyname in ('Range', 'RangeTo') else bounds[-1]
    def conc(x):
        return ex.concretize(x, 0, bounds[-1] + 8) if is_sym(x) else x
    lo, hi = conc(lo), conc(hi)
    if lo > hi or hi > bounds[-1]: ex.panic('byte range %d..%d out of range for a string of %d bytes' % (lo, hi, bounds[-1]))
    if lo not in bounds or hi not in bounds: ex.panic('byte index %d is not a char boundary' % (lo if lo not in bounds else hi))
    return StrV(sv.chars[bounds.index(lo):bounds.index(hi)])


@model(r'<(?:std::string::)?String as (?:std::ops::)?Index<(?:std::ops::)?RangeFull>>::index|<str as (?:std::ops::)?Index<(?:std::ops::)?RangeFull>>::index')
def string_index_full(ex, args): return as_str(args[0])


@model(r'(?:core::str::|std::str::|alloc::str::)?<impl str>::(to_uppercase|to_lowercase|to_ascii_uppercase|to_ascii_lowercase)|(?:std::string::)?String::(to_uppercase|to_lowercase)')
def str_case(ex, args, m):
    """ASCII only (non-ASCII input is outside every claim that uses this model): obligation, not assumption"""
    s = as_str(args[0]); up = 'upper' in m.group(0)
    out = []
    for c in s.chars:
        if isinstance(c, int):
            if c >= 128: raise Unsupported('case conversion of non-ASCII char')
            out.append(ord(chr(c).upper() if up else chr(c).lower()))
        else:
            ex.oblige(c < 128, 'model-domain', 'case conversion model covers ASCII only')
            out.append(z3.If(z3.And(c >= 97, c <= 122), c - 32, c) if up else z3.If(z3.And(c >= 65, c <= 90), c + 32, c))
    return StrV(out)


@model(r'<(?:std::ops::)?Range<.*> as Clone>::clone|<(?:std::option::)?Option<.*> as Clone>::clone|<\(.*\) as Clone>::clone|<(?:std::result::)?Result<.*> as Clone>::clone')
def lib_clone(ex, args): return clone_val(deref(args[0]))


@model(r'<(?:std::vec::)?Vec<.*> as Clone>::clone_from|<(?:std::string::)?String as Clone>::clone_from')
def lib_clone_from(ex, args):
    args[0].set(clone_deep(ex, deref(args[1]))); return UNIT


@model(r'<\[.*\] as ToOwned>::to_owned|(?:core::slice::|std::slice::|alloc::slice::)?<impl \[.*\]>::to_owned')
def slice_to_owned(ex, args):
    s = as_slice(args[0]); return VecV([clone_deep(ex, x) for x in s.elems()])


@model(r'<&?(u8|u16|u32|u64|usize|i8|i16|i32|i64|isize) as (?:std::ops::)?(Add|Sub|Mul)<&?(?:u8|u16|u32|u64|usize|i8|i16|i32|i64|isize)>>::(add|sub|mul)')
def prim_arith_ref(ex, args, m):
    a = deref(args[0]); b = deref(args[1]); op = m.group(2); lo, hi = INT_RANGE[m.group(1)]
    if is_sym(a) or is_sym(b): a = zint(a); b = zint(b)
    r = a + b if op == 'Add' else (a - b if op == 'Sub' else a * b)
    if isinstance(r, int):
        if not (lo <= r <= hi): ex.panic('arithmetic overflow in %s' % m.group(0))
        return r
    ex.oblige(z3.And(r >= lo, r <= hi), 'overflow', 'arithmetic overflow in %s' % m.group(0))
    return simp(r)


# ------------------------------------------------------------------ fmt: Display / Debug through the real impls
class FormatterV:
    """core::fmt::Formatter writing into a string buffer"""
    rust_type = 'Formatter'

    def __init__(self): self.buf = []
    def clone(self): return self


def decode_template(t):
    """this nightly's byte-coded format template: <len><literal bytes> | 0xC0 (next argument, default spec) | 0x00 end"""
    if isinstance(t, str): return [('lit', t)]
    out = []; i = 0
    while i < len(t):
        b = t[i]
        if b == 0: break
        if b < 0x80:
            out.append(('lit', bytes(t[i + 1:i + 1 + b]).decode('utf-8'))); i += 1 + b
        elif b == 0xC0:
            out.append(('arg',)); i += 1
        else:
            raise Unsupported('format template with a non-default argument spec (0x%02x)' % b)
    return out


def render_value(ex, v, f, debug=False):
    """append the Display (or Debug) rendering of v to formatter f"""
    from .engine import _dynamic_dispatch
    x = v
    while isinstance(x, Ref): x = x.get()
    if isinstance(x, StrV):
        if debug: f.buf.append(ord('"')); f.buf.extend(x.chars); f.buf.append(ord('"'))
        else: f.buf.extend(x.chars)
        return
    if isinstance(x, bool): f.buf.extend(map(ord, 'true' if x else 'false')); return
    if isinstance(x, int): f.buf.extend(map(ord, str(x))); return
    if isinstance(x, BigV) and isinstance(x.t, int): f.buf.extend(map(ord, str(x.t))); return
    if is_sym(x) or (isinstance(x, BigV) and is_sym(x.t)): raise Unsupported('formatting a symbolic number')
    if isinstance(x, Opaque) and x.tag == 'formatted':
        render_args(ex, x.data, f); return
    r = _dynamic_dispatch(ex, 'Debug' if debug else 'Display', 'fmt', 'fmt')(ex, [Ref([x], 0), Ref([f], 0)])
    return r


def render_args(ex, data, f):
    tmpl, fargs = data
    k = 0
    for piece in decode_template(tmpl):
        if piece[0] == 'lit': f.buf.extend(map(ord, piece[1]))
        else:
            a = fargs[k]; k += 1
            dbg = False
            if isinstance(a, tuple): a, dbg = a
            render_value(ex, a, f, dbg)


@model(r'(?:core::fmt::rt::|std::fmt::)?Argument::<.*>::new_(display|debug)::<.*>')
def fmt_argument2(ex, args, m): return Opaque('fmtarg', (args[0], m.group(1) == 'debug'))


@model(r'(?:std::fmt::|core::fmt::)?Formatter::<.*>::write_fmt|(?:std::fmt::|core::fmt::)?Formatter::write_fmt|<(?:std::fmt::)?Formatter<.*> as (?:std::fmt::)?Write>::write_fmt')
def formatter_write_fmt(ex, args):
    f = deref(args[0]); a = args[1]
    if not isinstance(f, FormatterV): return ok(UNIT)       # a formatter the harness does not observe
    render_args(ex, a.data, f)
    return ok(UNIT)


@model(r'(?:std::fmt::|core::fmt::)?Formatter::<.*>::write_str|(?:std::fmt::|core::fmt::)?Formatter::write_str|<(?:std::fmt::)?Formatter<.*> as (?:std::fmt::)?Write>::write_str')
def formatter_write_str(ex, args):
    f = deref(args[0])
    if isinstance(f, FormatterV): f.buf.extend(as_str(args[1]).chars)
    return ok(UNIT)


@model(r'<(.+) as ToString>::to_string')
def generic_to_string(ex, args, m):
    f = FormatterV()
    render_value(ex, args[0], f)
    return StrV(f.buf)


@model(r'(?:std::option::)?Option::<.*>::ok_or_else::<.*>')
def opt_ok_or_else(ex, args):
    o = args[0]
    return ok(o.f[0]) if o.var == 'Some' else err(ex.call_value(args[1], []))


@model(r'<\[.*; \d+\] as IntoIterator>::into_iter')
def array_into_iter(ex, args):
    v = args[0]
    return SeqIter(list(v.items)) if isinstance(v, VecV) else SeqIter(seq_of(ex, v))


@model(r'(?:core::str::|std::str::)?<impl str>::(strip_prefix|strip_suffix)::<char>')
def str_strip_char(ex, args, m):
    cs = as_str(args[0]).chars; pat = args[1]
    if not cs: return none()
    first = m.group(1) == 'strip_prefix'
    c = simp(eq(cs[0] if first else cs[-1], pat))
    if ex.decide(c) if is_sym(c) else c: return some(StrV(cs[1:] if first else cs[:-1]))
    return none()


@model(r'(?:std::slice::|alloc::slice::|core::slice::)?<impl \[(?:std::string::)?String\]>::join::<&str>|(?:std::slice::|alloc::slice::)?<impl \[&str\]>::join::<&str>')
def slice_join(ex, args):
    items = as_slice(args[0]).elems(); sep = as_str(args[1]).chars; out = []
    for i, it in enumerate(items):
        if i: out += list(sep)
        out += list(as_str(it).chars)
    return StrV(out)


@model(r'(?:core::str::|std::str::|alloc::str::)?<impl str>::replace::<char>')
def str_replace_char(ex, args):
    """s.replace(c, t) for a char pattern: every occurrence of c is replaced by the string t (forks on symbolic chars)"""
    src = as_str(args[0]).chars; pat = args[1]; to = as_str(args[2]).chars
    out = []
    for ch in src:
        c = simp(eq(ch, pat))
        if ex.decide(c) if is_sym(c) else c: out.extend(to)
        else: out.append(ch)
    return StrV(out)


@model(r'(?:core::str::|std::str::)?<impl str>::split::<char>')
def str_split_char(ex, args):
    """str::split(char): segments between separators (symbolic chars fork on `c == sep`)"""
    s = as_str(args[0]); sep = args[1]
    segs = [[]]
    for c in s.chars:
        r = simp(eq(c, sep))
        if ex.decide(r) if is_sym(r) else r: segs.append([])
        else: segs[-1].append(c)
    return SeqIter([StrV(x) for x in segs])


@model(r"<(?:std::str::)?Split<'_, char> as Iterator>::(\w+)(?:::<.*>)?")
def str_split_iter(ex, args, m): return iter_adaptor(ex, m.group(1), deref(args[0]), args[1:], m)


@model(r'(?:core::str::|std::str::)?<impl str>::split_at')
def str_split_at(ex, args):
    s = as_str(args[0]); mid = args[1]
    txt = s.concrete()
    if txt is None or is_sym(mid): raise Unsupported('split_at on symbolic string / index')
    b = txt.encode('utf-8')
    return Struct('()', [StrV.of(b[:mid].decode('utf-8')), StrV.of(b[mid:].decode('utf-8'))])
