"""Value model of the MIR executor.

Scalars are Python ints/bools when concrete and z3 Int/Bool terms when symbolic (chars are
ints = Unicode scalar values, BigInt is an unbounded int inside BigV).  Compound values are
small Python objects whose mutable payload is always a *list*, so that a reference is just
(list, index).
"""
import z3


class Ref:
    """&T / &mut T / *const T: points at cont[key]."""
    __slots__ = ('cont', 'key')

    def __init__(self, cont, key): self.cont = cont; self.key = key
    def get(self): return self.cont[self.key]
    def set(self, v): self.cont[self.key] = v
    def __repr__(self): return f'&{self.cont[self.key]!r}'


class Struct:
    """struct / tuple / closure environment."""
    __slots__ = ('ty', 'f')

    def __init__(self, ty, f): self.ty = ty; self.f = f
    def __repr__(self): return f'{self.ty}{self.f!r}'


class Enum:
    """enum value; `var` = variant *name* (always concrete for data-carrying enums).
    For field-less enums `var` may be a z3 Int holding the discriminant (see EnumInfo)."""
    __slots__ = ('ty', 'var', 'f')

    def __init__(self, ty, var, f=None): self.ty = ty; self.var = var; self.f = f if f is not None else []
    def __repr__(self): return f'{self.ty}::{self.var}{self.f if self.f else ""}'


class BoxV:
    __slots__ = ('f',)

    def __init__(self, v): self.f = [v]
    def __repr__(self): return f'Box({self.f[0]!r})'


class BigV:
    """num_bigint_dig::BigInt  (t: python int or z3 Int)."""
    __slots__ = ('t',)

    def __init__(self, t): self.t = t
    def __repr__(self): return f'Big({self.t})'


class VecV:
    """Vec<T> / [T; N] / the target of a slice: concrete length, symbolic elements."""
    __slots__ = ('items', 'ty')

    def __init__(self, items, ty='Vec'): self.items = items; self.ty = ty
    def __repr__(self): return f'{self.ty}{self.items!r}'


class SliceV:
    """the unsized place behind a &[T]: a window of a VecV."""
    __slots__ = ('vec', 'lo', 'hi')

    def __init__(self, vec, lo, hi): self.vec = vec; self.lo = lo; self.hi = hi
    def __len__(self): return self.hi - self.lo
    def elems(self): return self.vec.items[self.lo:self.hi]
    def __repr__(self): return f'[{self.elems()!r}]'


class StrV:
    """String / str contents: list of chars (ints or z3 Ints).  A &str is a Ref to a cell
    holding a StrV, or the StrV itself for constants (both accepted by `as_str`)."""
    __slots__ = ('chars',)

    def __init__(self, chars): self.chars = list(chars)
    @staticmethod
    def of(s): return StrV([ord(c) for c in s])
    def concrete(self):
        if all(isinstance(c, int) for c in self.chars): return ''.join(map(chr, self.chars))
        return None
    def __repr__(self):
        c = self.concrete()
        return repr(c) if c is not None else f'Str{self.chars!r}'


class FnItem:
    __slots__ = ('name',)

    def __init__(self, name): self.name = name
    def __repr__(self): return f'fn {self.name}'


class Closure:
    __slots__ = ('span', 'f', 'names')

    def __init__(self, span, names, f): self.span = span; self.names = names; self.f = f
    def __repr__(self): return f'closure@{self.span}'


class Opaque:
    """A value the harness does not look into (stub result)."""
    __slots__ = ('tag', 'data')

    def __init__(self, tag, data=None): self.tag = tag; self.data = data
    def __repr__(self): return f'<{self.tag}:{self.data!r}>'


class Blob:
    """An opaque library value whose fields may be projected (each projection is another Blob)."""
    __slots__ = ('tag', 'sub')

    def __init__(self, tag): self.tag = tag; self.sub = {}
    def field(self, i):
        if i not in self.sub: self.sub[i] = [Blob('%s.%s' % (self.tag, i))]
        return self.sub[i], 0
    def clone(self): return self
    def __repr__(self): return '<blob %s>' % self.tag


class Unit:
    def __repr__(self): return '()'


UNIT = Struct('()', [])


def deref(v):
    while isinstance(v, Ref): v = v.cont[v.key]
    return v


def is_sym(v): return isinstance(v, z3.ExprRef)


def clone_val(v, memo=None):
    """Owned deep copy (what derive(Clone) does); references are copied as references."""
    if isinstance(v, (int, bool, str, Ref, FnItem, z3.ExprRef, type(None))): return v
    if isinstance(v, Struct): return Struct(v.ty, [clone_val(x) for x in v.f])
    if isinstance(v, Enum): return Enum(v.ty, v.var, [clone_val(x) for x in v.f])
    if isinstance(v, BoxV): return BoxV(clone_val(v.f[0]))
    if isinstance(v, BigV): return BigV(v.t)
    if isinstance(v, VecV): return VecV([clone_val(x) for x in v.items], v.ty)
    if isinstance(v, StrV): return StrV(v.chars)
    if isinstance(v, Closure): return Closure(v.span, v.names, [clone_val(x) for x in v.f])
    if isinstance(v, (Opaque, Blob)): return v
    if hasattr(v, 'clone'): return v.clone()
    raise TypeError('clone_val: ' + repr(type(v)))


# ------------------------------------------------------------------ scalar helpers (python | z3)

def zint(x): return z3.IntVal(x) if isinstance(x, int) and not isinstance(x, bool) else x
def zbool(x): return z3.BoolVal(x) if isinstance(x, bool) else x


def simp(t):
    """Collapse a z3 term to a python value when it is a literal."""
    if isinstance(t, z3.ExprRef):
        t = z3.simplify(t)
        if z3.is_int_value(t): return t.as_long()
        if z3.is_true(t): return True
        if z3.is_false(t): return False
    return t


def b_and(*xs):
    out = []
    for x in xs:
        if x is False: return False
        if x is True: continue
        out.append(x)
    if not out: return True
    return out[0] if len(out) == 1 else z3.And(*out)


def b_or(*xs):
    out = []
    for x in xs:
        if x is True: return True
        if x is False: continue
        out.append(x)
    if not out: return False
    return out[0] if len(out) == 1 else z3.Or(*out)


def b_not(x):
    if isinstance(x, bool): return not x
    return z3.Not(x)


def ite(c, a, b):
    if c is True: return a
    if c is False: return b
    if isinstance(a, (int, bool)) and isinstance(b, (int, bool)) and a == b and type(a) == type(b): return a
    if isinstance(a, bool) or isinstance(b, bool) or z3.is_bool(a) or z3.is_bool(b):
        return z3.If(c, zbool(a), zbool(b))
    return z3.If(c, zint(a), zint(b))


def eq(a, b):
    if not is_sym(a) and not is_sym(b): return a == b
    if isinstance(a, bool) or isinstance(b, bool): return zbool(a) == zbool(b)
    return zint(a) == zint(b)
