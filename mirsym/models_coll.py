"""HashMap / HashSet / BTreeMap / BTreeSet as association lists (insertion order; key equality through
the key type's own PartialEq when it is hand-written, structurally when derived; symbolic equality forks)."""
import re, z3
from .values import *
from .engine import Unsupported, PathDead
from .rustdefs import simple_name
from . import models
from .models import model, some, none, val_eq_dispatch, SeqIter, seq_of, clone_deep, COLLECTORS


def hash_order(ex, seq):
    """iteration order of the hash-based collections: insertion order by default; a harness may ask for another fixed order
    (`reverse`, `rotate`) to compare the results of an order-independent computation"""
    mode = ex.h.notes.get('hash_order') if ex is not None and hasattr(ex, 'h') else None
    seq = list(seq)
    if mode == 'reverse': seq.reverse()
    elif mode == 'rotate' and len(seq) > 1: seq = seq[1:] + seq[:1]
    elif mode and mode.startswith('shuffle:') and len(seq) > 1:
        # a pseudo-random permutation that depends on the salt and on how many collections were iterated before (deterministic per path)
        import random
        n = ex.h.notes.get('hash_iterations', 0) + 1; ex.h.notes['hash_iterations'] = n
        random.Random('%s/%d/%d' % (mode, n, len(seq))).shuffle(seq)
    return seq


class MapV:
    rust_type = 'HashMap'

    def __init__(self, entries=None, kind='HashMap'): self.entries = entries or []; self.kind = kind
    def clone(self): return MapV([[clone_val(k), clone_val(v)] for k, v in self.entries], self.kind)
    def iter_items(self, ex): return hash_order(ex, [Struct('()', [Ref(e, 0), Ref(e, 1)]) for e in self.entries])
    def __repr__(self): return '%s%r' % (self.kind, self.entries)

    def find(self, ex, key):
        key = deref(key)
        for e in self.entries:
            c = val_eq_dispatch(ex, e[0], key)
            if ex.decide(c) if is_sym(c) else c: return e
        return None

    def eq_model(self, ex, other):
        if len(self.entries) != len(other.entries): return False
        for k, v in self.entries:
            e = other.find(ex, k)
            if e is None: return False
            c = val_eq_dispatch(ex, v, e[1])
            if not (ex.decide(c) if is_sym(c) else c): return False
        return True


class SetV:
    rust_type = 'HashSet'

    def __init__(self, items=None, kind='HashSet'): self.items = items or []; self.kind = kind
    def clone(self): return SetV([clone_val(k) for k in self.items], self.kind)
    def iter_items(self, ex): return hash_order(ex, [Ref(self.items, i) for i in range(len(self.items))])
    def __repr__(self): return '%s%r' % (self.kind, self.items)

    def index(self, ex, key):
        key = deref(key)
        for i, k in enumerate(self.items):
            c = val_eq_dispatch(ex, k, key)
            if ex.decide(c) if is_sym(c) else c: return i
        return None

    def add(self, ex, key):
        if self.index(ex, key) is None:
            self.items.append(key); return True
        return False

    def eq_model(self, ex, other):
        if len(self.items) != len(other.items): return False
        return all(other.index(ex, k) is not None for k in self.items)


def as_map(v):
    v = deref(v)
    if isinstance(v, MapV): return v
    raise Unsupported('expected map, got ' + type(v).__name__)


def as_set(v):
    v = deref(v)
    if isinstance(v, SetV): return v
    if getattr(v, 'as_setv', False): return v
    raise Unsupported('expected set, got ' + type(v).__name__)


MAP = r'(?:std::collections::)?(?:Hash|BTree)Map'
SET = r'(?:std::collections::)?(?:Hash|BTree)Set'


@model(MAP + r'::<.*>::(?:new|with_capacity)|<' + MAP + r'<.*> as Default>::default')
def map_new(ex, args): return MapV()


@model(SET + r'::<.*>::(?:new|with_capacity)|<' + SET + r'<.*> as Default>::default')
def set_new(ex, args): return SetV()


@model(MAP + r'::<.*>::insert')
def map_insert(ex, args):
    m = as_map(args[0]); e = m.find(ex, args[1])
    if e is None:
        m.entries.append([args[1], args[2]]); return none()
    old = e[1]; e[1] = args[2]; return some(old)


@model(MAP + r'::<.*>::(get|get_mut)(?:::<.*>)?')
def map_get(ex, args, m_):
    e = as_map(args[0]).find(ex, args[1])
    return none() if e is None else some(Ref(e, 1))


@model(MAP + r'::<.*>::contains_key(?:::<.*>)?')
def map_contains(ex, args): return as_map(args[0]).find(ex, args[1]) is not None


@model(MAP + r'::<.*>::remove(?:::<.*>)?')
def map_remove(ex, args):
    m = as_map(args[0]); e = m.find(ex, args[1])
    if e is None: return none()
    m.entries.remove(e); return some(e[1])


@model(MAP + r'::<.*>::drain')
def map_drain(ex, args):
    m = as_map(args[0]); items = [Struct('()', [e[0], e[1]]) for e in m.entries]
    m.entries[:] = []
    return SeqIter(items)


@model(SET + r'::<.*>::drain')
def set_drain(ex, args):
    s = as_set(args[0]); items = list(s.items); s.items[:] = []
    return SeqIter(items)


@model(MAP + r'::<.*>::(len|is_empty)')
def map_len(ex, args, m_):
    n = len(as_map(args[0]).entries)
    return n if m_.group(1) == 'len' else n == 0


@model(MAP + r'::<.*>::(iter|iter_mut)|<&(?:mut )?' + MAP + r'<.*> as IntoIterator>::into_iter')
def map_iter(ex, args, m_=None): return SeqIter(as_map(args[0]).iter_items(ex))


@model(r'<' + MAP + r'<.*> as IntoIterator>::into_iter')
def map_into_iter(ex, args): return SeqIter(hash_order(ex, [Struct('()', [k, v]) for k, v in as_map(args[0]).entries]))


@model(MAP + r'::<.*>::(keys|values|values_mut|into_keys|into_values)')
def map_keys(ex, args, m_):
    m = as_map(args[0]); k = m_.group(1)
    if k == 'keys': return SeqIter(hash_order(ex, [Ref(e, 0) for e in m.entries]))
    if k in ('values', 'values_mut'): return SeqIter(hash_order(ex, [Ref(e, 1) for e in m.entries]))
    return SeqIter(hash_order(ex, [e[0] if k == 'into_keys' else e[1] for e in m.entries]))


@model(MAP + r'::<.*>::clear')
def map_clear(ex, args): del as_map(args[0]).entries[:]; return UNIT


@model(MAP + r'::<.*>::entry')
def map_entry(ex, args):
    m = as_map(args[0]); e = m.find(ex, args[1])
    return Struct('EntryV', [m, args[1], e])


@model(r'(?:std::collections::(?:hash_map|btree_map)::)?Entry::<.*>::(or_insert|or_insert_with|or_default|or_insert_with_key)(?:::<.*>)?')
def entry_or_insert(ex, args, m_):
    en = args[0]; m, key, e = en.f
    if e is None:
        k = m_.group(1)
        if k == 'or_insert': v = args[1]
        elif k == 'or_default': v = models.default_for(ex, _deref_ty(ex.dest_ty()))
        else: v = ex.call_value(args[1], [])
        e = [key, v]; m.entries.append(e)
    return Ref(e, 1)


@model(r'(?:std::collections::(?:hash_map|btree_map)::)?Entry::<.*>::and_modify::<.*>')
def entry_and_modify(ex, args):
    en = args[0]; m, key, e = en.f
    if e is not None: ex.call_value(args[1], [Ref(e, 1)])
    return en


def _deref_ty(t):
    if t is None: return None
    t = t.strip()
    if t.startswith('&'):
        t = re.sub(r"^&\s*('\w+\s+)?(mut\s+)?", '', t)
    return t


@model(r'<' + MAP + r'<.*> as Clone>::clone|<' + SET + r'<.*> as Clone>::clone')
def coll_clone(ex, args): return deref(args[0]).clone()


@model(r'<' + MAP + r'<.*> as (?:std::ops::)?Index<.*>>::index')
def map_index(ex, args):
    e = as_map(args[0]).find(ex, args[1])
    if e is None: ex.panic('HashMap index: key not found')
    return Ref(e, 1)


@model(r'<' + MAP + r'<.*> as Extend<.*>>::extend::<.*>')
def map_extend(ex, args):
    m = as_map(args[0])
    for kv in seq_of(ex, args[1]):
        kv = deref(kv); k, v = kv.f
        e = m.find(ex, k)
        if e is None: m.entries.append([k, v])
        else: e[1] = v
    return UNIT


@model(r'<' + MAP + r'<.*> as PartialEq>::(eq|ne)|<' + SET + r'<.*> as PartialEq>::(eq|ne)')
def coll_eq(ex, args, m_):
    r = deref(args[0]).eq_model(ex, deref(args[1]))
    return r if 'eq' in m_.groups() else (not r)


# ---- sets
@model(SET + r'::<.*>::insert')
def set_insert(ex, args): return as_set(args[0]).add(ex, args[1])


@model(SET + r'::<.*>::contains(?:::<.*>)?')
def set_contains(ex, args):
    s = as_set(args[0])
    return s.index(ex, args[1]) is not None


@model(SET + r'::<.*>::remove(?:::<.*>)?')
def set_remove(ex, args):
    s = as_set(args[0]); i = s.index(ex, args[1])
    if i is None: return False
    s.items.pop(i); return True


@model(SET + r'::<.*>::(len|is_empty)')
def set_len(ex, args, m_):
    n = as_set(args[0]).size(ex) if hasattr(as_set(args[0]), 'size') else len(as_set(args[0]).items)
    return n if m_.group(1) == 'len' else simp(eq(n, 0))


@model(SET + r'::<.*>::(iter)|<&' + SET + r'<.*> as IntoIterator>::into_iter')
def set_iter(ex, args, m_=None): return SeqIter(as_set(args[0]).iter_items(ex))


@model(r'<' + SET + r'<.*> as IntoIterator>::into_iter')
def set_into_iter(ex, args):
    s = as_set(args[0])
    return SeqIter([deref(r) for r in s.iter_items(ex)])


@model(SET + r'::<.*>::(intersection|union|difference)')
def set_algebra(ex, args, m_):
    a = as_set(args[0]); b = as_set(args[1]); k = m_.group(1)
    if hasattr(a, 'algebra'): return a.algebra(ex, k, b)
    if k == 'intersection': return SeqIter(hash_order(ex, [Ref(a.items, i) for i, x in enumerate(a.items) if b.index(ex, x) is not None]))
    if k == 'difference': return SeqIter(hash_order(ex, [Ref(a.items, i) for i, x in enumerate(a.items) if b.index(ex, x) is None]))
    return SeqIter(hash_order(ex, [Ref(a.items, i) for i in range(len(a.items))] + [Ref(b.items, i) for i, x in enumerate(b.items) if a.index(ex, x) is None]))


@model(SET + r'::<.*>::(is_subset|is_superset|is_disjoint)')
def set_rel(ex, args, m_):
    a = as_set(args[0]); b = as_set(args[1]); k = m_.group(1)
    if k == 'is_superset': a, b = b, a
    if k == 'is_disjoint': return all(b.index(ex, x) is None for x in a.items)
    return all(b.index(ex, x) is not None for x in a.items)


@model(SET + r'::<.*>::clear')
def set_clear(ex, args): del as_set(args[0]).items[:]; return UNIT


@model(r'<' + SET + r'<.*> as Extend<.*>>::extend::<.*>')
def set_extend(ex, args):
    s = as_set(args[0])
    for x in seq_of(ex, args[1]): s.add(ex, x)
    return UNIT


@model(r'<' + SET + r'<.*> as From<\[.*\]>>::from|<' + SET + r'<.*> as FromIterator<.*>>::from_iter::<.*>')
def set_from(ex, args):
    s = SetV()
    for x in seq_of(ex, args[0]): s.add(ex, x)
    return s


def _collect_set(ex, items, ty):
    s = SetV()
    for x in items: s.add(ex, x)
    return s


def _collect_map(ex, items, ty):
    m = MapV()
    for kv in items:
        k, v = deref(kv).f
        e = m.find(ex, k)
        if e is None: m.entries.append([k, v])
        else: e[1] = v
    return m


COLLECTORS['HashSet'] = _collect_set; COLLECTORS['BTreeSet'] = _collect_set
COLLECTORS['HashMap'] = _collect_map; COLLECTORS['BTreeMap'] = _collect_map


# ------------------------------------------------------------------ HashSet<usize> over a bounded universe
class BitSetV:
    """HashSet<usize> with elements in 0..n-1: one (python | z3) boolean per possible element.
    Membership stays symbolic; iteration decides membership element by element, in ascending order."""
    rust_type = 'HashSet'
    as_setv = True

    def __init__(self, n, bits=None): self.n = n; self.bits = list(bits) if bits is not None else [False] * n
    def clone(self): return BitSetV(self.n, self.bits)
    def __repr__(self): return 'BitSet%r' % (self.bits,)

    def _k(self, ex, key):
        key = deref(key)
        k = ex.concretize(key, 0, self.n - 1) if is_sym(key) else key
        if not (0 <= k < self.n): raise Unsupported('BitSetV element %r outside universe %d' % (k, self.n))
        return k

    def add(self, ex, key):
        k = self._k(ex, key); old = self.bits[k]; self.bits[k] = True
        return simp(b_not(old))

    def contains(self, ex, key):
        key = deref(key)
        if is_sym(key):
            return simp(b_or(*[b_and(eq(key, i), self.bits[i]) for i in range(self.n)]))
        if not (0 <= key < self.n): return False
        return self.bits[key]

    def index(self, ex, key):
        c = self.contains(ex, key)
        c = ex.decide(c) if is_sym(c) else c
        return 0 if c else None

    def remove(self, ex, key):
        k = self._k(ex, key); old = self.bits[k]; self.bits[k] = False; return old

    def size(self, ex):
        t = 0
        for b in self.bits: t = t + (ite(b, 1, 0) if is_sym(b) else int(b))
        return simp(t) if is_sym(t) else t

    def members(self, ex):
        out = []
        for i, b in enumerate(self.bits):
            if ex.decide(b) if is_sym(b) else b: out.append(i)
        return out

    def iter_items(self, ex): return [Ref([i], 0) for i in self.members(ex)]

    def algebra(self, ex, kind, other):
        if not isinstance(other, BitSetV): raise Unsupported('BitSetV algebra with ' + type(other).__name__)
        if kind == 'intersection': bits = [simp(b_and(a, b)) for a, b in zip(self.bits, other.bits)]
        elif kind == 'union': bits = [simp(b_or(a, b)) for a, b in zip(self.bits, other.bits)]
        else: bits = [simp(b_and(a, b_not(b))) for a, b in zip(self.bits, other.bits)]
        return BitSetV(self.n, bits)

    def eq_model(self, ex, other):
        return simp(b_and(*[eq(zbool(a) if is_sym(b) else a, zbool(b) if is_sym(a) else b) for a, b in zip(self.bits, other.bits)]))


def bitset_stubs(h, n):
    """make every HashSet<usize> of the code under test a BitSetV over 0..n-1 (harness binding)."""
    import re as _re
    def R(p, f): h.stub_res.append((_re.compile(p), f))
    U = r'(?:std::collections::)?HashSet::<usize>'
    R(U + r'::new', lambda ex, a, m: BitSetV(n))
    R(r'<(?:std::collections::)?HashSet<usize> as From<\[usize; \d+\]>>::from', lambda ex, a, m: _from_items(ex, n, seq_of(ex, a[0])))
    R(r'<.* as Iterator>::collect::<(?:std::collections::)?HashSet<usize>>', lambda ex, a, m: _collect_bitset(ex, n, a[0]))
    R(U + r'::insert', lambda ex, a, m: deref(a[0]).add(ex, a[1]))
    R(U + r'::contains(?:::<.*>)?', lambda ex, a, m: deref(a[0]).contains(ex, a[1]))
    R(U + r'::remove(?:::<.*>)?', lambda ex, a, m: deref(a[0]).remove(ex, a[1]))
    R(U + r'::len', lambda ex, a, m: deref(a[0]).size(ex))
    R(U + r'::is_empty', lambda ex, a, m: simp(eq(deref(a[0]).size(ex), 0)))
    R(U + r'::(intersection|union|difference)', lambda ex, a, m: deref(a[0]).algebra(ex, m.group(1), deref(a[1])))
    R(r'<&(?:std::collections::)?HashSet<usize> as (?:std::ops::)?Sub>::sub', lambda ex, a, m: deref(a[0]).algebra(ex, 'difference', deref(a[1])))
    R(r'<(?:std::collections::)?HashSet<usize> as PartialEq>::(eq|ne)', lambda ex, a, m: (deref(a[0]).eq_model(ex, deref(a[1])) if m.group(1) == 'eq' else simp(b_not(deref(a[0]).eq_model(ex, deref(a[1]))))))
    R(r'<(?:std::collections::)?HashSet<usize> as Clone>::clone', lambda ex, a, m: deref(a[0]).clone())
    R(r'<(?:std::collections::hash_set::)?(?:Intersection|Union|Difference)<.*usize.*> as Iterator>::(copied|cloned)(?:::<.*>)?', lambda ex, a, m: a[0])


def _from_items(ex, n, items):
    s = BitSetV(n)
    for x in items: s.add(ex, x)
    return s


def _collect_bitset(ex, n, src):
    src = deref(src) if not isinstance(src, (SeqIter, BitSetV)) else src
    if isinstance(src, BitSetV): return src.clone()
    s = BitSetV(n)
    for x in seq_of(ex, src): s.add(ex, deref(x))
    return s


@model(r'<&' + SET + r'<.*> as (?:std::ops::)?(Sub|BitOr|BitAnd)(?:<.*>)?>::(sub|bitor|bitand)')
def set_operator(ex, args, m):
    a = as_set(args[0]); b = as_set(args[1]); k = m.group(1)
    if hasattr(a, 'algebra'): return a.algebra(ex, {'Sub': 'difference', 'BitOr': 'union', 'BitAnd': 'intersection'}[k], b)
    if k == 'Sub': items = [clone_val(x) for x in a.items if b.index(ex, x) is None]
    elif k == 'BitAnd': items = [clone_val(x) for x in a.items if b.index(ex, x) is not None]
    else: items = [clone_val(x) for x in a.items] + [clone_val(x) for x in b.items if a.index(ex, x) is None]
    return SetV(items)
