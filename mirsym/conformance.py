"""Library models are tested, not trusted: every model used by the engine is evaluated on
concrete boundary vectors through the engine's own call path and compared with what the real
library returns inside the native probe (`vr_* lib ...`)."""
import z3
from .values import *
from . import models
from .engine import Harness, Exec, Stats, PathEnd


class _H:
    """minimal harness for concrete evaluation of a model"""
    def __init__(self):
        self.inputs = {}; self.pow_limit = None; self.notes = {'max_bits': 300}; self.allow_panic = None
        self.stubs = {}; self.stub_res = []; self.trait_binds = {}; self.step_budget = 10**6; self.query_timeout_ms = 10000
        self.prog = None; self.crate = None


def _ex():
    s = z3.Solver()
    return Exec(_H(), s, [], [], Stats())


def call(callee, args):
    ex = _ex()
    f = models.lookup(callee)
    assert f is not None, callee
    try: return f(ex, args)
    except PathEnd: return 'PANIC'


P = [21888242871839275222246405745257275088548364400416034343698204186575808495617,
     52435875175126190479447740508185965837690552500527637822603658699938581184513, 18446744069414584321, 257, 7]


def big_values():
    vals = {0, 1, 2, 3, 5, 255, 256, 2**16 - 1, 2**64 - 1, 2**64, 2**64 + 1, 2**128 + 12345, 2**256 - 1, 2**256}
    for p in P: vals |= {p - 1, p, p + 1, p // 2, p // 2 + 1, p // 2 - 1, 2 * p + 3}
    return sorted(vals)


def check_bigint(nat):
    """returns (number of vectors compared, list of mismatches)"""
    bad = []; n = 0
    vals = big_values()
    small = [0, 1, 2, 3, 7, 255, 256, 257, 2**64 - 1, 2**64, P[0] - 1, P[0] // 2 + 1, 2**256 - 1]
    signed = [-(2**70) - 3, -257, -7, -1] + small

    def cmp(line, mine):
        nonlocal n
        got = nat.ask(line); n += 1
        if str(mine) != got: bad.append((line, str(mine), got))

    B = lambda x: Ref([BigV(x)], 0)
    for a in signed:
        for b in signed:
            cmp('lib add %d %d' % (a, b), call('<&BigInt as Add>::add', [B(a), B(b)]).t)
            cmp('lib sub %d %d' % (a, b), call('<&BigInt as Sub>::sub', [B(a), B(b)]).t)
            cmp('lib mul %d %d' % (a, b), call('<&BigInt as Mul>::mul', [B(a), B(b)]).t)
            if b != 0:
                cmp('lib div %d %d' % (a, b), call('<&BigInt as Div>::div', [B(a), B(b)]).t)
                cmp('lib rem %d %d' % (a, b), call('<&BigInt as Rem>::rem', [B(a), B(b)]).t)
            cmp('lib lt %d %d' % (a, b), str(call('<&BigInt as PartialOrd>::lt', [B(a), B(b)])).lower())
            cmp('lib le %d %d' % (a, b), str(call('<&BigInt as PartialOrd>::le', [B(a), B(b)])).lower())
            cmp('lib eq %d %d' % (a, b), str(call('<BigInt as PartialEq>::eq', [B(a), B(b)])).lower())
    for a in small:
        for b in small:
            cmp('lib bitand %d %d' % (a, b), call('<&BigInt as BitAnd>::bitand', [B(a), B(b)]).t)
            cmp('lib bitor %d %d' % (a, b), call('<&BigInt as BitOr>::bitor', [B(a), B(b)]).t)
            cmp('lib bitxor %d %d' % (a, b), call('<&BigInt as BitXor>::bitxor', [B(a), B(b)]).t)
    for a in vals + [-1, -5]:
        r = call('<BigInt as ToPrimitive>::to_usize', [B(a)])
        cmp('lib to_usize %d' % a, 'Some(%d)' % r.f[0] if r.var == 'Some' else 'None')
        cmp('lib bits %d' % a, call('BigInt::bits', [B(a)]))
        if a >= 0:
            r = call('BigInt::to_radix_le', [B(a), 2])
            cmp('lib to_radix_le %d' % a, '%s [%s]' % (r.f[0].var, ', '.join(map(str, r.f[1].items))))
    for e in (0, 1, 2, 63, 64, 254, 255, 256, 300):
        cmp('lib pow 2 %d' % e, call('num_traits::pow::<BigInt>', [BigV(2), e]).t)
    for p in P:
        for a in [0, 1, 2, p - 1, p // 2, p // 2 + 1, 12345 % p, p, p + 1, 2 * p, 3 * p + 2]:
            r = call('<&BigInt as ModInverse<&BigInt>>::mod_inverse', [B(a), B(p)])
            cmp('lib mod_inverse %d %d' % (a, p), 'Some("%d")' % r.f[0].t if r.var == 'Some' else 'None')
            for e in (0, 1, 2, p - 1, p - 2, 65537):
                cmp('lib modpow %d %d %d' % (a, e, p), call('BigInt::modpow', [B(a), B(e), B(p)]).t)
    for sign in ('Plus', 'NoSign', 'Minus'):
        for digits in ('', '0', '1', '01', '10', '1011', '0000', '1' * 256, '01' * 128, '012', '2'):
            v = VecV([int(c) for c in digits])
            r = call('BigInt::from_radix_le', [Enum('Sign', sign), Ref([v], 0), 2])
            if r == 'PANIC':
                got = nat.ask('lib from_radix_le %s %s' % (sign, digits)); n += 1
                if not got.startswith('PANIC'): bad.append(('from_radix_le', 'PANIC', got))
                continue
            cmp('lib from_radix_le %s %s' % (sign, digits), 'Some("%d")' % r.f[0].t if r.var == 'Some' else 'None')
    return n, bad
