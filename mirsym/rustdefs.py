"""Type definitions read from /repo's sources (enum variant order, struct field order).

Only *shapes* are read here (needed to interpret `discriminant(x)` and to let harnesses
build values by field name); behaviour always comes from MIR.
"""
import os, re, glob

STD_ENUMS = {
    'Option': [('None', 0), ('Some', 1)],
    'Result': [('Ok', 0), ('Err', 1)],
    'ControlFlow': [('Continue', 0), ('Break', 1)],
    'Ordering': [('Less', -1), ('Equal', 0), ('Greater', 1)],
    'Sign': [('Minus', 0), ('NoSign', 1), ('Plus', 2)],
    'Level': [('Error', 1), ('Warn', 2), ('Info', 3), ('Debug', 4), ('Trace', 5)],
    'LevelFilter': [('Off', 0), ('Error', 1), ('Warn', 2), ('Info', 3), ('Debug', 4), ('Trace', 5)],
    'Cow': [('Borrowed', 0), ('Owned', 1)],
    'Entry': [('Occupied', 0), ('Vacant', 1)],
    'Bound': [('Included', 0), ('Excluded', 1), ('Unbounded', 2)],
    'Infallible': [],
}


def strip_comments(src):
    out = []; i = 0; n = len(src)
    while i < n:
        if src.startswith('//', i):
            j = src.find('\n', i)
            i = n if j < 0 else j
        elif src.startswith('/*', i):
            j = src.find('*/', i + 2)
            i = n if j < 0 else j + 2
        elif src[i] == '"':
            j = i + 1
            while j < n and src[j] != '"':
                j += 2 if src[j] == '\\' else 1
            out.append(src[i:j + 1]); i = j + 1
        else:
            out.append(src[i]); i += 1
    return ''.join(out)


def _match(src, i):
    depth = 0
    for j in range(i, len(src)):
        c = src[j]
        if c in '({[': depth += 1
        elif c in ')}]':
            depth -= 1
            if depth == 0: return j
    raise ValueError


def _split(body):
    out = []; depth = 0; cur = ''
    for c in body:
        if c in '({[<': depth += 1
        elif c in ')}]>': depth -= 1
        if c == ',' and depth == 0:
            out.append(cur); cur = ''
        else: cur += c
    if cur.strip(): out.append(cur)
    return [x.strip() for x in out if x.strip()]


class Defs:
    def __init__(self, repo):
        self.enums = {}       # name -> list of (variant, discr, fieldnames|arity, file)
        self.structs = {}     # name -> list of field names (or arity for tuple structs), file
        self.by_file = {}
        for path in sorted(glob.glob(os.path.join(repo, '*', 'src', '**', '*.rs'), recursive=True)):
            rel = os.path.relpath(path, repo)
            try: src = strip_comments(open(path).read())
            except Exception: continue
            self._scan(src, rel)

    def _scan(self, src, rel):
        for m in re.finditer(r'\benum\s+(\w+)\s*(<[^{]*>)?\s*\{', src):
            name = m.group(1)
            close = _match(src, m.end() - 1)
            body = src[m.end():close]
            variants = []; next_d = 0
            for item in _split(body):
                item = re.sub(r'#\[[^\]]*\]\s*', '', item).strip()
                mm = re.match(r'(\w+)\s*(.*)$', item, re.S)
                if not mm: continue
                vname, rest = mm.group(1), mm.group(2).strip()
                fields = []
                if rest.startswith('('):
                    fields = list(range(len(_split(rest[1:_match(rest, 0)]))))
                elif rest.startswith('{'):
                    fields = [re.match(r'(?:pub\s+)?(\w+)\s*:', re.sub(r'#\[[^\]]*\]\s*', '', f)).group(1) for f in _split(rest[1:_match(rest, 0)])]
                elif rest.startswith('='):
                    next_d = int(rest[1:].strip())
                variants.append((vname, next_d, fields)); next_d += 1
            self.enums.setdefault(name, []).append((variants, rel))
        for m in re.finditer(r'\bstruct\s+(\w+)\s*(<[^{(;]*>)?\s*(\{|\(|;)', src):
            name = m.group(1)
            if m.group(3) == ';':
                fields = []
            else:
                close = _match(src, m.end() - 1)
                body = src[m.end():close]
                if m.group(3) == '(':
                    fields = list(range(len(_split(body))))
                else:
                    fields = []
                    for f in _split(body):
                        f = re.sub(r'#\[[^\]]*\]\s*', '', f).strip()
                        mm = re.match(r'(?:pub(?:\([a-z]+\))?\s+)?(\w+)\s*:', f)
                        if mm: fields.append(mm.group(1))
            self.structs.setdefault(name, []).append((fields, rel))

    # ------------------------------------------------------------------
    def enum_variants(self, tyname, hint_file=None):
        """variants [(name, discr, fields)] of the enum called `tyname` (simple name or path)."""
        simple = simple_name(tyname)
        if simple in STD_ENUMS and simple not in self.enums:
            return [(n, d, None) for n, d in STD_ENUMS[simple]]
        cands = self.enums.get(simple)
        if not cands:
            if simple in STD_ENUMS: return [(n, d, None) for n, d in STD_ENUMS[simple]]
            return None
        if len(cands) > 1:
            q = qualifier(tyname)
            for variants, rel in cands:
                if q and q in rel.replace('/', '::'): return variants
                if hint_file and os.path.dirname(rel) == os.path.dirname(hint_file): return variants
        return cands[0][0]

    def find_variant(self, vname, tyhint=None):
        """enum simple name that has a variant `vname` (used for trimmed paths like `Equal`)."""
        if tyhint:
            vs = self.enum_variants(tyhint)
            if vs and any(v[0] == vname for v in vs): return simple_name(tyhint)
        hits = [e for e, cands in self.enums.items() for variants, _ in cands if any(v[0] == vname for v in variants)]
        hits += [e for e, vs in STD_ENUMS.items() if any(n == vname for n, _ in vs) and e not in hits]
        return hits[0] if len(hits) == 1 else (hits[0] if hits else None)

    def struct_fields(self, tyname):
        cands = self.structs.get(simple_name(tyname))
        if not cands: return None
        if len(cands) > 1:
            q = qualifier(tyname)
            for fields, rel in cands:
                if q and q in rel.replace('/', '::'): return fields
        return cands[0][0]


def simple_name(ty):
    """`std::option::Option<usize>` -> `Option`; `ir::Expression` -> `Expression`."""
    ty = ty.strip()
    while ty.startswith('&'):
        ty = ty[1:].strip()
        if ty.startswith('mut '): ty = ty[4:]
        if ty.startswith("'"):
            ty = ty.split(' ', 1)[1] if ' ' in ty else ty
    # cut generics
    depth = 0; out = ''
    for c in ty:
        if c == '<': depth += 1
        elif c == '>': depth -= 1
        elif depth == 0: out += c
    out = out.replace('::::', '::')
    return out.rstrip(':').split('::')[-1].strip()


def qualifier(ty):
    depth = 0; out = ''
    for c in ty:
        if c == '<': depth += 1
        elif c == '>': depth -= 1
        elif depth == 0: out += c
    parts = out.replace('::::', '::').rstrip(':').split('::')
    return parts[-2] if len(parts) >= 2 else None


if __name__ == '__main__':
    d = Defs('/repo')
    print(len(d.enums), 'enums', len(d.structs), 'structs')
    for n in ('Degree', 'ValueReduction', 'MessageCategory', 'Expression', 'ExpressionInfixOpcode', 'Curve'):
        for v, rel in d.enums.get(n, []): print(n, rel, [(a, b, c) for a, b, c in v][:30])
    print(d.structs.get('Meta'), d.structs.get('DegreeRange'))
