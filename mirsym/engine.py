"""Symbolic executor over rustc MIR (depth-first path exploration, z3 back end).

One `Exec` object executes ONE path; `explore()` re-executes from the start for every
pending decision prefix (replay-based forking: no state copying, models may call back into
MIR recursively).  Obligations (MIR asserts, reached panics, model pre-conditions, harness
post-conditions) are discharged by the solver under the current path condition.
"""
import os, re, time, sys
import z3
from .values import *
from .rustdefs import simple_name
from . import mirparse

INT_RANGE = {
    'u8': (0, 2**8 - 1), 'u16': (0, 2**16 - 1), 'u32': (0, 2**32 - 1), 'u64': (0, 2**64 - 1), 'u128': (0, 2**128 - 1),
    'usize': (0, 2**64 - 1), 'i8': (-2**7, 2**7 - 1), 'i16': (-2**15, 2**15 - 1), 'i32': (-2**31, 2**31 - 1),
    'i64': (-2**63, 2**63 - 1), 'i128': (-2**127, 2**127 - 1), 'isize': (-2**63, 2**63 - 1), 'char': (0, 0x10ffff),
}


class Unsupported(Exception): pass        # engine cannot interpret -> inconclusive
class PathDead(Exception): pass           # infeasible path
class PathEnd(Exception): pass            # path ended by a (recorded) panic or harness stop
class Budget(Exception): pass             # step budget hit -> inconclusive


class Violation:
    def __init__(self, kind, msg, where, model, pc_text=None, extra=None):
        self.kind = kind; self.msg = msg; self.where = where; self.model = model; self.pc_text = pc_text
        self.extra = extra or {}

    def __repr__(self): return f'Violation({self.kind}: {self.msg} @ {self.where} model={self.model})'


class Frame:
    __slots__ = ('fn', 'vars')

    def __init__(self, fn, n): self.fn = fn; self.vars = [None] * n


class Stats:
    def __init__(self):
        self.paths = 0; self.blocks = 0; self.queries = 0; self.obligations = 0; self.discharged = 0
        self.solver_s = 0.0; self.trivial = 0; self.dead = 0; self.fns = set(); self.samples = []
        self.models_used = set(); self.inconclusive = []

    def merge(self, o):
        self.paths += o.paths; self.blocks += o.blocks; self.queries += o.queries; self.obligations += o.obligations
        self.discharged += o.discharged; self.solver_s += o.solver_s; self.trivial += o.trivial; self.dead += o.dead
        self.fns |= o.fns; self.models_used |= o.models_used; self.inconclusive += o.inconclusive
        for s in o.samples:
            if len(self.samples) < 12: self.samples.append(s)


class Harness:
    """What a spec hands to the engine."""

    def __init__(self, prog, crate):
        self.prog = prog; self.crate = crate
        self.stubs = {}          # callee text -> py function(ex, args, ctx)
        self.stub_res = []       # (regex, py function)
        self.trait_binds = {}    # (typetoken, trait simple, method) -> py function
        self.inputs = {}         # name -> z3 const  (for counterexample extraction)
        self.step_budget = 2_000_000
        self.query_timeout_ms = 60_000
        self.pow_limit = None
        self.allow_panic = None  # optional predicate(msg) -> True if this panic is outside the claim
        self.notes = {}


class Exec:
    def __init__(self, h, solver, decisions, pending, stats):
        self.h = h; self.prog = h.prog; self.solver = solver
        self.decisions = decisions; self.dpos = 0; self.pending = pending; self.stats = stats
        self.stack = []; self.violations = []; self.steps = 0
        self.pc_len = 0; self.trace_decisions = []
        self.notes = {}
        self.crate = h.crate
        self.known = {}; self.keep = []

    # ------------------------------------------------------------------ solver interface
    def _check(self, *extra):
        t = time.time()
        self.solver.push()
        for e in extra: self.solver.add(e)
        r = self.solver.check()
        self.stats.queries += 1
        self.stats.solver_s += time.time() - t
        _dump_query(self.solver, r)
        if r == z3.unknown:
            self.solver.pop()
            raise Unsupported('solver returned unknown: ' + self.solver.reason_unknown())
        return r

    def feasible(self, c):
        r = self._check(c); self.solver.pop(); return r == z3.sat

    def assume(self, c):
        c = simp(c)
        if c is True: return
        if c is False: raise PathDead()
        self.solver.add(c); self.pc_len += 1

    def decide(self, cond):
        """python bool for a possibly symbolic condition; forks when both sides are feasible."""
        cond = simp(cond)
        if isinstance(cond, bool): return cond
        neg = False
        while z3.is_not(cond):
            cond = cond.arg(0); neg = not neg
        key = cond.get_id()
        hit = self.known.get(key)
        if hit is not None: return hit != neg
        if self.dpos < len(self.decisions):
            d = self.decisions[self.dpos]; self.dpos += 1
        else:
            t = self.feasible(cond)
            if t:
                f = self.feasible(z3.Not(cond))
                if f:
                    self.pending.append(self.decisions[:self.dpos] + [False])
                d = True
            else:
                d = False    # pc is feasible by invariant, so the other side is
            self.decisions.append(d); self.dpos += 1
        self.solver.add(cond if d else z3.Not(cond)); self.pc_len += 1
        self.known[key] = d
        self.keep.append(cond)
        return d != neg

    def choose(self, n, conds):
        """fork n-ways: conds[i] symbolic guards, returns the index taken."""
        for i in range(n - 1):
            if self.decide(conds[i]): return i
        return n - 1

    def concretize(self, t, lo, hi):
        """python int for an Int term known to lie in [lo, hi] (forks)."""
        t = simp(t)
        if isinstance(t, int): return t
        if hi - lo <= 3:
            for v in range(lo, hi + 1):
                if self.decide(t == v): return v
            raise PathDead()
        # binary search: O(log n) decisions per path
        while lo < hi:
            mid = (lo + hi) // 2
            if self.decide(t <= mid): hi = mid
            else: lo = mid + 1
        self.assume(t == lo)
        return lo

    def model_of(self):
        m = self.solver.model()
        out = {}
        for name, var in self.h.inputs.items():
            v = m.eval(var, model_completion=True)
            if z3.is_int_value(v): out[name] = v.as_long()
            elif z3.is_true(v): out[name] = True
            elif z3.is_false(v): out[name] = False
            elif z3.is_string_value(v): out[name] = v.as_string()
            else: out[name] = str(v)
        return out

    def oblige(self, cond, kind, msg, extra=None, prefer=None):
        """`cond` must hold on this path; otherwise a violation with a model is recorded.
        Afterwards the path continues under `cond`."""
        self.stats.obligations += 1
        cond = simp(cond)
        if cond is True:
            self.stats.discharged += 1; self.stats.trivial += 1; return True
        if cond is False:
            if prefer is not None and self._check(prefer) == z3.sat:
                self._record(kind, msg, extra); self.solver.pop()
                raise PathEnd()
            elif prefer is not None: self.solver.pop()
            if self._check() != z3.sat:
                self.solver.pop(); raise PathDead()          # the path condition itself is infeasible: nothing reaches this point
            self._record(kind, msg, extra)
            self.solver.pop()
            raise PathEnd()
        r = self._check(z3.Not(cond))
        if r == z3.sat:
            if prefer is not None:
                # try for a more telling witness first
                if self._check(prefer) == z3.sat:
                    self._record(kind, msg, extra); self.solver.pop()
                else:
                    self.solver.pop()
                    self.solver.check()          # the model of the first query was discarded by the failed `prefer` query
                    self._record(kind, msg, extra)
            else:
                self._record(kind, msg, extra)
            self.solver.pop()
            if not self.feasible(cond): raise PathEnd()
            self.solver.add(cond); self.pc_len += 1
            return False
        self.solver.pop()
        self.stats.discharged += 1
        if len(self.stats.samples) < 12 and kind not in ('overflow', 'bounds'):
            self.stats.samples.append({'obligation': kind, 'text': msg[:200], 'where': self.where(), 'path_decisions': len(self.decisions), 'result': 'unsat (holds)'})
        self.solver.add(cond); self.pc_len += 1
        return True

    def _record(self, kind, msg, extra=None):
        v = Violation(kind, msg, self.where(), self.model_of(), extra=extra)
        v.extra['decisions'] = list(self.decisions[:self.dpos])
        self.violations.append(v)

    def panic(self, msg):
        """a panic site has been reached on a feasible path."""
        if self.h.allow_panic and self.h.allow_panic(msg): raise PathEnd()
        self.stats.obligations += 1
        if self._check() != z3.sat:
            self.solver.pop(); raise PathDead()
        self._record('panic', msg); self.solver.pop()
        raise PathEnd()

    def where(self):
        return ' > '.join(f.fn.name.split('>::')[-1].split('::')[-1] if len(f.fn.name) > 60 else f.fn.name for f in self.stack[-4:])

    # ------------------------------------------------------------------ MIR interpretation
    def call_mir(self, fn, args):
        if len(self.stack) > 400: raise Unsupported('stack depth > 400 in ' + fn.name)
        nloc = (max(fn.locals) if fn.locals else 0) + 1
        nloc = max(nloc, len(fn.args) + 1)
        fr = Frame(fn, nloc)
        if len(args) != len(fn.args):
            raise Unsupported('arity mismatch calling %s: %d vs %d' % (fn.name, len(args), len(fn.args)))
        for i, a in enumerate(args): fr.vars[i + 1] = a
        self.stack.append(fr)
        self.stats.fns.add(fn.name)
        bb = 'bb0'
        try:
            while True:
                self.steps += 1; self.stats.blocks += 1
                if self.steps > self.h.step_budget: raise Budget('step budget %d exhausted in %s' % (self.h.step_budget, fn.name))
                stmts, term = fn.block(bb)
                for s in stmts: self.stmt(fr, s)
                bb = self.term(fr, term)
                if bb is None: return fr.vars[0]
        finally:
            self.stack.pop()

    def stmt(self, fr, s):
        k = s[0]
        if k == 'assign':
            place = s[1]
            v = self.rvalue(fr, s[2], place)
            if place[0] == 'local': fr.vars[place[1]] = v
            else:
                cont, key = self.lval(fr, place)
                cont[key] = v
        elif k == 'setdiscr':
            cont, key = self.lval(fr, s[1])
            raise Unsupported('SetDiscriminant')
        elif k == 'assume':
            self.assume(self.operand(fr, s[1]))

    # ---- places
    def lval(self, fr, p):
        k = p[0]
        if k == 'local': return fr.vars, p[1]
        if k == 'deref':
            v = self.read(fr, p[1])
            if isinstance(v, Ref): return v.cont, v.key
            if isinstance(v, BoxV): return v.f, 0
            if isinstance(v, (SliceV, StrV)): return [v], 0     # unsized place behind a fat pointer
            if isinstance(v, (VecV,)): return [v], 0
            raise Unsupported('deref of %r in %s' % (type(v).__name__, fr.fn.name))
        if k == 'field':
            v = self.read(fr, p[1])
            if isinstance(v, (Struct, Enum, Closure)): return v.f, p[2]
            if isinstance(v, BoxV): return [v], 0        # Box.0 (Unique) .0 (NonNull): stay on the box
            if v is None: raise Unsupported('field of uninitialised place in ' + fr.fn.name)
            if hasattr(v, 'field'): return v.field(p[2])
            raise Unsupported('field %d of %r in %s' % (p[2], type(v).__name__, fr.fn.name))
        if k == 'downcast': return self.lval(fr, p[1])
        if k == 'index':
            v = self.read(fr, p[1]); idx = fr.vars[p[2]]
            return self.index_lval(v, idx)
        if k == 'cindex':
            v = self.read(fr, p[1])
            if isinstance(v, VecV): n = len(v.items); lo = 0; items = v.items
            elif isinstance(v, SliceV): n = len(v); lo = v.lo; items = v.vec.items
            else: raise Unsupported('cindex on ' + type(v).__name__)
            i = (n - p[2]) if p[4] else p[2]
            return items, lo + i
        if k == 'subslice':
            v = self.read(fr, p[1])
            if isinstance(v, VecV): v = SliceV(v, 0, len(v.items))
            hi = v.hi - p[3] if p[4] else (v.lo + p[3] if p[3] is not None else v.hi)
            return [SliceV(v.vec, v.lo + p[2], hi)], 0
        raise Unsupported('place ' + repr(p))

    def index_lval(self, v, idx):
        if isinstance(v, VecV): n = len(v.items); lo = 0; items = v.items
        elif isinstance(v, SliceV): n = len(v); lo = v.lo; items = v.vec.items
        else: raise Unsupported('index on ' + type(v).__name__)
        i = self.concretize(idx, 0, n - 1)
        if not (0 <= i < n): raise Unsupported('index %d out of range %d (bounds assert missing?)' % (i, n))
        return items, lo + i

    def read(self, fr, p):
        if p[0] == 'local': return fr.vars[p[1]]
        cont, key = self.lval(fr, p)
        return cont[key]

    def operand(self, fr, o):
        k = o[0]
        if k == 'move':
            p = o[1]
            return fr.vars[p[1]] if p[0] == 'local' else self.read(fr, p)
        if k == 'copy':
            p = o[1]
            v = fr.vars[p[1]] if p[0] == 'local' else self.read(fr, p)
            if isinstance(v, (Struct, Enum)): return clone_val(v)
            return v
        return self.const(fr, o[1])

    _INTLIT = re.compile(r'(-?\d+)_(u8|u16|u32|u64|u128|usize|i8|i16|i32|i64|i128|isize)$')

    def const(self, fr, text):
        c = self.prog_const_cache.get(text) if False else None
        m = self._INTLIT.match(text)
        if m: return int(m.group(1))
        if text == 'true': return True
        if text == 'false': return False
        if text == '()': return UNIT
        ch = text[0]
        if ch == '"': return StrV.of(_unescape(text[1:-1]))
        if ch == "'": return ord(_unescape(text[1:-1]))
        if text.startswith('b"'): return VecV(list(_unescape_bytes(text[2:-1])), 'bytes')
        if text.endswith(']') and '::promoted[' in text:
            idx = text[text.rindex('::promoted['):]
            # a promoted of the function being executed
            name = fr.fn.name + idx
            f = self.prog.crates[fr.fn.crate].get(name)
            if f is None:
                # promoted of a closure's parent etc.: search by suffix
                cands = [g for n, g in self.prog.crates[fr.fn.crate].items() if n.endswith(idx) and _promoted_matches(n, text)]
                if len(cands) != 1: raise Unsupported('promoted %s (%d candidates)' % (text, len(cands)))
                f = cands[0]
            return self.call_mir(f, [])
        if text in ('usize::MAX', 'core::num::<impl usize>::MAX', 'u64::MAX'): return 2**64 - 1
        if text in ('u32::MAX',): return 2**32 - 1
        if text in ('isize::MAX', 'i64::MAX'): return 2**63 - 1
        hk = self.h.stubs.get('const ' + text)
        if hk is not None: return hk(self)
        # named constant with a MIR body
        f = self.prog.crates[fr.fn.crate].get(text)
        if f is not None and not f.args and f.blocks: return self.call_mir(f, [])
        for c, fns in self.prog.crates.items():
            for n, g in fns.items():
                if not g.args and g.sig.startswith('const ') and (n == text or n.endswith('::' + text) or text.endswith('::' + n)):
                    return self.call_mir(g, [])
        if text.startswith('ZeroSized: {closure@'):
            return Closure(text[len('ZeroSized: '):], [], [])
        if text.startswith('ZeroSized: '):
            inner = text[len('ZeroSized: '):]
            if inner.startswith('fn(') or '{' in inner: return FnItem(inner)
            return FnItem(inner)
        if text == '{zero-sized}': return UNIT
        sc = getattr(self.prog, 'simple_consts', {})
        for n_, v_ in sc.items():
            if n_ == text or text.endswith('::' + n_) or n_.endswith('::' + text): return v_
        return FnItem(text)

    # ---- rvalues
    def rvalue(self, fr, rv, dest):
        k = rv[0]
        if k == 'use': return self.operand(fr, rv[1])
        if k == 'ref' or k == 'rawptr':
            p = rv[2] if k == 'ref' else rv[1]
            if p[0] == 'deref':
                inner = self.read(fr, p[1])
                if isinstance(inner, Ref): return inner           # reborrow
                if isinstance(inner, BoxV): return Ref(inner.f, 0)
                if isinstance(inner, (SliceV, StrV, VecV)): return inner
                raise Unsupported('reborrow of ' + type(inner).__name__)
            cont, key = self.lval(fr, p)
            v = cont[key]
            if v is None and p[0] == 'local':
                # zero-sized locals (capture-less closures, unit structs) are never assigned in MIR
                ty = (fr.fn.locals.get(p[1]) or '').strip()
                if ty.startswith('{closure@'): cont[key] = v = Closure(ty, [], [])
            if isinstance(v, SliceV) and p[0] in ('subslice',): return v
            return Ref(cont, key)
        if k == 'binop': return self.binop(fr, rv[1], self.operand(fr, rv[2]), self.operand(fr, rv[3]), rv, dest)
        if k == 'unop':
            a = self.operand(fr, rv[2])
            if rv[1] == 'Not':
                if isinstance(a, bool) or z3.is_bool(a): return simp(b_not(a))
                if isinstance(a, int):
                    ty = self.operand_type(fr, rv[2])
                    lo, hi = INT_RANGE[ty]
                    return (hi - a) if lo == 0 else (-a - 1)
                raise Unsupported('bitwise Not on symbolic int')
            if rv[1] == 'Neg': return simp(-a)
            if rv[1] == 'PtrMetadata':
                a = a.get() if isinstance(a, Ref) else a
                if isinstance(a, SliceV): return len(a)
                if isinstance(a, VecV): return len(a.items)
                if isinstance(a, StrV): return self.str_len(a)
                raise Unsupported('PtrMetadata of ' + type(a).__name__)
        if k == 'discr':
            v = self.read(fr, rv[1])
            return self.discriminant(v)
        if k == 'tuple': return Struct('()', [self.operand(fr, o) for o in rv[1]])
        if k == 'array': return VecV([self.operand(fr, o) for o in rv[1]], 'array')
        if k == 'repeat':
            n = int(re.match(r'\d+', rv[2]).group()) if re.match(r'\d+', rv[2]) else None
            if n is None: raise Unsupported('repeat count ' + rv[2])
            v = self.operand(fr, rv[1])
            return VecV([clone_val(v) for _ in range(n)], 'array')
        if k == 'adt': return self.aggregate(fr, rv[1], rv[2], dest)
        if k == 'cast': return self.cast(fr, rv, dest)
        if k == 'closure':
            return Closure(rv[1], [n for n, _ in rv[2]], [self.operand(fr, o) for _, o in rv[2]])
        if k == 'len':
            v = self.read(fr, rv[1])
            return len(v.items) if isinstance(v, VecV) else len(v)
        raise Unsupported('rvalue ' + repr(rv)[:100])

    def discriminant(self, v):
        if isinstance(v, Enum):
            if not isinstance(v.var, str): return v.var          # symbolic / numeric discriminant of a C-like enum
            vs = self.prog.defs.enum_variants(v.ty)
            if vs is None: raise Unsupported('unknown enum ' + v.ty)
            for name, d, _ in vs:
                if name == v.var: return d
            raise Unsupported('variant %s of %s' % (v.var, v.ty))
        if hasattr(v, 'discriminant'): return v.discriminant(self)
        raise Unsupported('discriminant of ' + repr(type(v).__name__))

    def dest_type(self, fr, dest):
        if dest is None: return None
        try: return self.place_type(fr, dest)
        except Exception: return None

    def place_type(self, fr, p):
        k = p[0]
        if k == 'local':
            n = p[1]
            if n == 0: return fr.fn.locals.get(0, fr.fn.ret)
            t = fr.fn.locals.get(n)
            if t is None:
                for i, ty in fr.fn.args:
                    if i == n: return ty
            return t
        if k == 'field': return p[3]
        if k == 'deref':
            t = self.place_type(fr, p[1])
            if t is None: return None
            t = t.strip()
            if t.startswith('&'):
                t = t[1:].lstrip()
                t = re.sub(r"^'\w+ ", '', t)
                if t.startswith('mut '): t = t[4:]
                return t
            if t.startswith('*const '): return t[7:]
            if t.startswith('*mut '): return t[5:]
            m = re.match(r'(?:std::boxed::)?Box<(.*)>$', t)
            if m: return m.group(1)
            return None
        if k == 'downcast': return self.place_type(fr, p[1])
        if k in ('index', 'cindex'):
            t = self.place_type(fr, p[1])
            if t and t.startswith('['):
                inner = t[1:-1]
                return mirparse.split_top(inner, ';')[0]
            return None
        return None

    def operand_type(self, fr, o):
        if o[0] == 'const':
            m = self._INTLIT.match(o[1])
            if m: return m.group(2)
            if o[1] in ('true', 'false'): return 'bool'
            return None
        return self.place_type(fr, o[1])

    def binop(self, fr, name, a, b, rv, dest):
        if name in ('Eq', 'Ne'):
            r = eq(a, b)
            r = simp(r)
            return r if name == 'Eq' else simp(b_not(r))
        if name in ('Lt', 'Le', 'Gt', 'Ge'):
            if is_sym(a) or is_sym(b): a = zint(a); b = zint(b)
            r = {'Lt': lambda: a < b, 'Le': lambda: a <= b, 'Gt': lambda: a > b, 'Ge': lambda: a >= b}[name]()
            return simp(r)
        if name in ('AddWithOverflow', 'SubWithOverflow', 'MulWithOverflow'):
            ty = self.operand_type(fr, rv[2]) or self.operand_type(fr, rv[3])
            if ty not in INT_RANGE:
                dt = self.dest_type(fr, dest)
                m = re.match(r'\((\w+), bool\)', dt or '')
                ty = m.group(1) if m else None
            if ty not in INT_RANGE: raise Unsupported('overflow op of unknown type in ' + fr.fn.name)
            lo, hi = INT_RANGE[ty]
            if is_sym(a) or is_sym(b): a = zint(a); b = zint(b)
            r = a + b if name[0] == 'A' else (a - b if name[0] == 'S' else a * b)
            r = simp(r)
            ov = simp(b_or(r < lo, r > hi)) if is_sym(r) else (r < lo or r > hi)
            return Struct('()', [r, ov])
        if name in ('Add', 'Sub', 'Mul', 'AddUnchecked', 'SubUnchecked', 'MulUnchecked'):
            ty = self.operand_type(fr, rv[2]) or self.operand_type(fr, rv[3])
            if is_sym(a) or is_sym(b): a = zint(a); b = zint(b)
            r = a + b if name[0] == 'A' else (a - b if name[0] == 'S' else a * b)
            if ty in INT_RANGE and 'Unchecked' not in name:
                lo, hi = INT_RANGE[ty]
                if isinstance(r, int):
                    if lo == 0: r %= (hi + 1)
                    else: r = (r - lo) % (hi - lo + 1) + lo
                else:
                    self.oblige(b_and(r >= lo, r <= hi), 'overflow', 'wrapping arithmetic not modelled: result must stay in range')
            return simp(r)
        if name in ('Div', 'Rem'):
            if is_sym(b): self.oblige(zint(b) != 0, 'panic', 'division by zero')
            elif b == 0: self.panic('division by zero')
            if isinstance(a, int) and isinstance(b, int):
                q = abs(a) // abs(b) * (1 if (a >= 0) == (b > 0) else -1)
                return q if name == 'Div' else a - b * q
            a = zint(a); b = zint(b)
            # operands of unsigned type in practice
            ty = self.operand_type(fr, rv[2]) or self.operand_type(fr, rv[3])
            if ty in INT_RANGE and INT_RANGE[ty][0] == 0:
                return simp(a / b if name == 'Div' else a % b)
            raise Unsupported('signed symbolic division')
        if name in ('BitAnd', 'BitOr', 'BitXor'):
            if (isinstance(a, bool) or z3.is_bool(a)) :
                a = zbool(a) if is_sym(b) else a; b = zbool(b) if is_sym(a) else b
                if name == 'BitAnd': return simp(b_and(a, b))
                if name == 'BitOr': return simp(b_or(a, b))
                return simp(z3.Xor(zbool(a), zbool(b))) if is_sym(a) or is_sym(b) else (a != b)
            if isinstance(a, int) and isinstance(b, int):
                return {'BitAnd': a & b, 'BitOr': a | b, 'BitXor': a ^ b}[name]
            raise Unsupported('symbolic machine-word bit operation ' + name)
        if name in ('Shl', 'Shr', 'ShlUnchecked', 'ShrUnchecked'):
            if isinstance(a, int) and isinstance(b, int):
                ty = self.operand_type(fr, rv[2])
                lo, hi = INT_RANGE.get(ty, (0, 2**64 - 1))
                return ((a << b) & hi) if name.startswith('Shl') else (a >> b)
            raise Unsupported('symbolic shift')
        if name == 'Cmp':
            lt = simp(zint(a) < zint(b)) if is_sym(a) or is_sym(b) else a < b
            e = simp(eq(a, b))
            return Enum('Ordering', simp(ite(lt, -1, ite(e, 0, 1))) if is_sym(lt) or is_sym(e) else ('Less' if lt else ('Equal' if e else 'Greater')))
        raise Unsupported('binop ' + name)

    def aggregate(self, fr, path, fields, dest):
        vals = [self.operand(fr, o) for _, o in fields]
        defs = self.prog.defs
        # split "A::B::<G>::Variant" into type and last segment
        segs = _path_segments(path)
        last = segs[-1]
        if len(segs) >= 2:
            tyname = segs[-2]
            vs = defs.enum_variants('::'.join(segs[:-1]))
            if vs is not None and any(v[0] == last for v in vs):
                return Enum(_type_tag(segs[:-1]), last, vals)
        # struct (possibly generic) or a bare variant name
        if defs.struct_fields(last) is not None and (fields and fields[0][0] is not None or not self._is_variant_name(last, fr, dest)):
            return Struct(_type_tag(segs), vals)
        dt = self.dest_type(fr, dest)
        en = defs.find_variant(last, dt)
        if en is not None and (dt is None or simple_name(dt) == en or defs.struct_fields(last) is None):
            return Enum(simple_name(dt) if dt and simple_name(dt) == en else en, last, vals)
        return Struct(_type_tag(segs), vals)

    def _is_variant_name(self, name, fr, dest):
        dt = self.dest_type(fr, dest)
        if not dt: return False
        vs = self.prog.defs.enum_variants(dt)
        return bool(vs) and any(v[0] == name for v in vs)

    def cast(self, fr, rv, dest):
        v = self.operand(fr, rv[1]); ty = rv[2].strip(); kind = rv[3]
        if kind == 'IntToInt':
            if isinstance(v, Enum): v = self.discriminant(v)
            if isinstance(v, bool): v = int(v)
            if z3.is_bool(v): v = z3.If(v, 1, 0)
            if ty in INT_RANGE:
                lo, hi = INT_RANGE[ty]
                if isinstance(v, int):
                    if lo <= v <= hi: return v
                    return (v - lo) % (hi - lo + 1) + lo
                src = self.operand_type(fr, rv[1])
                if src in INT_RANGE:
                    slo, shi = INT_RANGE[src]
                    if lo <= slo and shi <= hi: return v
                self.oblige(b_and(v >= lo, v <= hi), 'overflow', 'truncating cast not modelled: value must fit ' + ty)
                return v
            raise Unsupported('IntToInt to ' + ty)
        if kind == 'Transmute':
            if isinstance(v, BoxV): return Ref(v.f, 0)
            return v
        if kind.startswith('PointerCoercion') or kind in ('PtrToPtr', 'Subtype'):
            # unsizing &[T;N] -> &[T], &T -> &dyn Trait, Box<T> -> Box<dyn Trait>: representation unchanged
            if isinstance(v, Ref):
                t = v.get()
                if isinstance(t, VecV) and ('[' in ty): return SliceV(t, 0, len(t.items))
            return v
        raise Unsupported('cast ' + kind + ' to ' + ty)

    def str_len(self, s):
        n = 0
        for c in s.chars: n = n + utf8_len(c)
        return simp(n)

    # ---- terminators
    def term(self, fr, t):
        k = t[0]
        if k == 'goto': return t[1]
        if k == 'return': return None
        if k == 'drop': return t[2]
        if k == 'switch':
            v = self.operand(fr, t[1])
            if isinstance(v, Enum): v = self.discriminant(v)
            if isinstance(v, bool): v = int(v)
            if isinstance(v, int):
                for val, bb in t[2]:
                    if val == v: return bb
                if t[3] is None: raise Unsupported('switch without otherwise')
                return t[3]
            if z3.is_bool(v):
                d = self.decide(v)
                for val, bb in t[2]:
                    if val == int(d): return bb
                return t[3]
            for val, bb in t[2]:
                if self.decide(v == val): return bb
            if t[3] is None: raise PathDead()
            return t[3]
        if k == 'call': return self.call_term(fr, t)
        if k == 'assert':
            c = self.operand(fr, t[2])
            if t[1]: c = b_not(c)
            kind = 'bounds' if 'index out of bounds' in t[3] else ('overflow' if 'overflow' in t[3] else 'panic')
            self.oblige(c, kind, 'MIR assert: ' + t[3][:90])
            return t[4]
        if k == 'unreachable': raise PathDead()
        if k == 'resume' or k == 'abort': raise Unsupported('reached ' + k)
        raise Unsupported('terminator ' + k)

    def call_term(self, fr, t):
        _, dest, callee, argops, nxt = t
        args = [self.operand(fr, o) for o in argops]
        fn = self.resolve(fr, callee)
        dty = None
        self.cur_dest_type = (fr, dest)
        r = fn(self, args)
        if nxt is None:
            raise Unsupported('diverging call returned: ' + callee)
        if dest is not None:
            if dest[0] == 'local': fr.vars[dest[1]] = r
            else:
                cont, key = self.lval(fr, dest); cont[key] = r
        return nxt

    def dest_ty(self):
        fr, dest = self.cur_dest_type
        return self.dest_type(fr, dest)

    # ------------------------------------------------------------------ call resolution
    def resolve(self, fr, callee):
        key = (fr.fn.crate, callee)
        cache = self.prog._resolve_cache
        hit = cache.get(key)
        h = self.h
        s = h.stubs.get(callee)
        if s is not None: return s
        for rx, f in h.stub_res:
            m = rx.fullmatch(callee)
            if m: return (lambda ex, args, f=f, m=m: f(ex, args, m))
        if hit is not None: return hit
        r = self._resolve(fr, callee)
        if not getattr(r, 'nocache', False): cache[key] = r
        return r

    def _resolve(self, fr, callee):
        from . import models, models_coll
        prog = self.prog
        crate = fr.fn.crate
        f = prog.crates[crate].get(callee)
        if f is not None: return _mir_caller(f)
        # closures
        m = re.match(r'<(\{closure@[^}]*\}) as Fn(?:Once|Mut)?<.*>>::call(?:_once|_mut)?$', callee)
        if m:
            f = prog.closures.get(m.group(1))
            if f is None: raise Unsupported('closure body not found: ' + callee)
            return _closure_caller(f)
        # panics
        if re.match(r'(core::panicking::|std::rt::)?(panic|panic_fmt|panic_display|panic_str|unreachable_display|panic_explicit|begin_panic)(::<.*>)?$', callee) or \
                re.match(r'(core::panicking::)?assert_failed(::<.*>)?$', callee) or callee.endswith('unwrap_failed') or callee.endswith('expect_failed'):
            return _panic_model(callee)
        mi = re.fullmatch(r'<(.+) as Into<(.+)>>::into', callee)
        if mi:
            cands = prog.method_info('From', simple_name(mi.group(2)), 'from')
            if len(cands) > 1:
                q = [c for c in cands if simple_name(mi.group(1)) in (c[2] or '')]
                if len(q) > 1:
                    isref = mi.group(1).strip().startswith('&')
                    q = [c for c in q if (re.search(r'From<\s*&', c[2] or '') is not None) == isref]
                if len(q) == 1: cands = q
            if len(cands) == 1: return _mir_caller(cands[0][0])
        mt = re.fullmatch(r'<(.+) as TryInto<(.+)>>::try_into', callee)
        if mt:
            cands = prog.method_info('TryFrom', simple_name(mt.group(2)), 'try_from')
            if len(cands) > 1:
                isref = mt.group(1).strip().startswith('&')
                q = [c for c in cands if simple_name(mt.group(1)) in (c[2] or '') and (re.search(r'TryFrom<\s*&', c[2] or '') is not None) == isref]
                if len(q) == 1: cands = q
            if len(cands) == 1: return _mir_caller(cands[0][0])
        tm = _parse_callee(callee)
        if tm and tm[0] and simple_name(tm[0]) == 'Drop':
            return models.lookup(callee)
        if tm:
            tr, ty, method, tyfull = tm
            tys = simple_name(ty)
            # generic parameter / associated type: dispatch on the receiver
            bind = self.h.trait_binds.get((tys, simple_name(tr) if tr else None, method))
            if bind is not None: return bind
            tt = ty.strip()
            if tr and simple_name(tr) in ('Iterator', 'DoubleEndedIterator') and re.match(r'(std::boxed::)?Box<dyn (std::iter::)?Iterator<', tt):
                mdl = models.lookup(callee)
                if mdl is not None: return mdl
            if tr and (re.fullmatch(r'[A-Z]\w?|Self', tt) or tt.startswith('<') or tt.startswith('dyn ') or tt.startswith('Box<dyn') or tt.startswith('std::boxed::Box<dyn')):
                return _dynamic_dispatch(self, simple_name(tr), method, callee)
            infos = prog.method_info(simple_name(tr) if tr else None, tys, method)
            if len(infos) > 1:
                q = [i for i in infos if _qual_match(tyfull, i[1])]
                if len(q) == 1: infos = q
            if len(infos) > 1 and tr:
                # several impls of one trait that differ in the trait's generic arguments (Index<usize> / Index<&usize>)
                norm = lambda x: re.sub(r'(std|core)::(\w+::)*', '', (x or '').replace(' ', ''))
                q = [i for i in infos if norm(i[2]) == norm(tr)]
                if len(q) == 1: infos = q
            if len(infos) > 1:
                # same type name defined in several modules: prefer the caller's own module
                mods = [seg for seg in re.split(r'::|<impl at |/|\.rs', fr.fn.name) if re.fullmatch(r'[a-z_0-9]+', seg or '')]
                q = [i for i in infos if any(('/' + mod + '.rs') in ('/' + i[1]) for mod in mods)]
                if len(q) == 1: infos = q
            if not infos and tr and simple_name(tr) == 'PartialEq' and method == 'ne':
                eqs = prog.method_info('PartialEq', tys, 'eq')
                if len(eqs) == 1:
                    f0, rel0, tr0, ty0, der0 = eqs[0]
                    if der0:
                        return models.derived_model('PartialEq', 'ne')
                    return (lambda ex, args, f0=f0: simp(b_not(ex.call_mir(f0, args))))
            if len(infos) == 1:
                f, rel, tr_, ty_, derived = infos[0]
                if derived:
                    mdl = models.derived_model(simple_name(tr_), method)
                    if mdl: return mdl
                return _mir_caller(f)
            if len(infos) > 1:
                return _dynamic_dispatch(self, simple_name(tr) if tr else None, method, callee, infos)
        if tm and tm[0]:
            infos0 = prog.method_info(simple_name(tm[0]), simple_name(tm[1]), tm[2])
            if not infos0:
                d = _trait_default(prog, simple_name(tm[0]), tm[2])
                if d is not None and prog.defs.struct_fields(simple_name(tm[1])) is not None or (d is not None and prog.defs.enum_variants(simple_name(tm[1])) and simple_name(tm[1]) not in ('Option', 'Result')):
                    return _mir_caller(d)
        # free function by path suffix
        if re.fullmatch(r'[\w:]+(::<.*>)?', callee):
            base = re.sub(r'::<.*>$', '', callee)
            seg = base.split('::')[-1]
            cands = prog.free.get(seg, [])
            cands = [c for c in cands if c.name == base or c.name.endswith('::' + base) or base.endswith('::' + c.name) or _same_tail(c.name, base)]
            if len(cands) == 1: return _mir_caller(cands[0])
        mdl = models.lookup(callee)
        if mdl is not None:
            self.stats.models_used.add(mdl.__name__ if hasattr(mdl, '__name__') else str(mdl))
            return mdl
        if tm:
            tr, ty, method, tyfull = tm
            if tr:
                return _dynamic_dispatch(self, simple_name(tr), method, callee)
        raise Unsupported('unmodelled function: ' + callee + '   (called from ' + fr.fn.name + ')')

    # convenience for models and harnesses -------------------------------------------------
    def call_value(self, f, args):
        """call a closure / fn item value."""
        if isinstance(f, Ref): f = f.get()
        if isinstance(f, Closure):
            fn = self.prog.closures.get(f.span)
            if fn is None: raise Unsupported('closure body not found: ' + f.span)
            return _closure_caller(fn)(self, [f, Struct('()', list(args))])
        if isinstance(f, FnItem):
            fake = self.stack[-1] if self.stack else None
            name = f.name
            # enum tuple-variant constructors used as functions (e.g. `Some`)
            segs = _path_segments(name)
            vs = self.prog.defs.enum_variants('::'.join(segs[:-1])) if len(segs) >= 2 else None
            if vs and any(v[0] == segs[-1] for v in vs): return Enum(_type_tag(segs[:-1]), segs[-1], list(args))
            if len(segs) == 1:
                en = self.prog.defs.find_variant(segs[0])
                if en and self.prog.defs.struct_fields(segs[0]) is None and segs[0][0].isupper():
                    return Enum(en, segs[0], list(args))
            return self.resolve(fake, name)(self, list(args))
        if callable(f): return f(self, list(args))
        raise Unsupported('call of value ' + repr(f))

    def call_named(self, fn, args):
        return self.call_mir(fn, args)


def utf8_len(c):
    if isinstance(c, int): return 1 if c < 0x80 else 2 if c < 0x800 else 3 if c < 0x10000 else 4
    return z3.If(c < 0x80, 1, z3.If(c < 0x800, 2, z3.If(c < 0x10000, 3, 4)))


def _mir_caller(f):
    def call(ex, args): return ex.call_mir(f, args)
    call.__name__ = 'mir:' + f.name
    return call


def _closure_caller(f):
    def call(ex, args):
        clo, tup = args[0], args[1]
        a = [clo] + list(tup.f)
        # closure fn takes (&mut env | &env | env) as _1
        want = f.args[0][1]
        if want.startswith('&') and not isinstance(clo, Ref): a[0] = Ref([clo], 0)
        if not want.startswith('&') and isinstance(clo, Ref): a[0] = clo.get()
        return ex.call_mir(f, a)
    return call


def _panic_model(callee):
    def call(ex, args):
        msg = callee
        for a in args:
            a = deref(a)
            if isinstance(a, StrV) and a.concrete() is not None: msg += ': ' + a.concrete(); break
            if isinstance(a, Opaque) and a.tag == 'fmt': msg += ': ' + str(a.data); break
        ex.panic(msg)
    return call


_DUMPED = {'n': 0}


def _dump_query(solver, result):
    """MIRSYM_DUMP_SMT=<dir>: write every k-th query (MIRSYM_DUMP_EVERY, default 50; at most MIRSYM_DUMP_MAX per process, default 40) as
    SMT-LIB2 with the verdict z3 gave, for the cross-check with other solvers (tools/crosscheck.py)"""
    d = os.environ.get('MIRSYM_DUMP_SMT')
    if not d: return
    _DUMPED['n'] += 1
    every = int(os.environ.get('MIRSYM_DUMP_EVERY', '50')); mx = int(os.environ.get('MIRSYM_DUMP_MAX', '40'))
    if _DUMPED['n'] % every != 0 or _DUMPED['n'] // every > mx: return
    try:
        os.makedirs(d, exist_ok=True)
        with open(os.path.join(d, 'q_%d_%d.smt2' % (os.getpid(), _DUMPED['n'])), 'w') as f:
            f.write('; z3-verdict: %s\n' % result)
            f.write(solver.to_smt2())
    except Exception:
        pass


def _dynamic_dispatch(ex0, trait, method, callee, infos=None):
    def call(ex, args):
        recv = deref(args[0]) if args else None
        if isinstance(recv, BoxV) and isinstance(deref(recv.f[0]), Closure): recv = deref(recv.f[0])
        if trait == 'ToString' and method == 'to_string':
            from . import models as _m
            return _m.generic_to_string(ex, args, None)
        if trait == 'IntoIterator' and method == 'into_iter':
            from .models import SeqIter
            a0 = args[0]
            if isinstance(a0, VecV): return SeqIter(list(a0.items))
            if isinstance(a0, Ref) and isinstance(a0.get(), VecV): return SeqIter([Ref(a0.get().items, i) for i in range(len(a0.get().items))])
            if isinstance(a0, SliceV): return SeqIter([Ref(a0.vec.items, i) for i in range(a0.lo, a0.hi)])
            if isinstance(recv, BoxV) and 'dyn' in callee and 'Iterator<' in callee: return args[0]
            tyx = getattr(recv, 'ty', None) or getattr(recv, 'rust_type', None)
            if tyx and (tyx in ('SeqIter', 'Chars') or ex.prog.method_info('Iterator', simple_name(tyx), 'next')): return args[0]
        if trait in ('Fn', 'FnMut', 'FnOnce'):
            r2 = deref(recv.f[0]) if isinstance(recv, BoxV) else recv
            if isinstance(r2, (Closure, FnItem)) or callable(r2): return ex.call_value(r2, list(args[1].f))
        if isinstance(recv, Closure):
            for g in ('F', 'T'):
                cands = ex.prog.method_info(trait, g, method)
                if len(cands) == 1: return ex.call_mir(cands[0][0], [Ref([recv], 0)] + list(args[1:]))
            raise Unsupported('no blanket impl of %s::%s for a closure' % (trait, method))
        ty = getattr(recv, 'ty', None)
        if isinstance(recv, BoxV): ty = getattr(deref(recv.f[0]), 'ty', None)
        if ty is None and hasattr(recv, 'rust_type'): ty = recv.rust_type
        if ty is None: raise Unsupported('dynamic dispatch of %s on %r' % (callee, type(recv).__name__))
        tys = simple_name(ty)
        bind = ex.h.trait_binds.get((tys, trait, method))
        if bind is not None: return bind(ex, args)
        cands = ex.prog.method_info(trait, tys, method)
        if len(cands) > 1:
            q = [i for i in cands if _qual_match(ty, i[1])]
            if len(q) == 1: cands = q
        if len(cands) != 1:
            from . import models
            d = _trait_default(ex.prog, trait, method) if not cands else None
            if d is not None: return ex.call_mir(d, list(args))
            mdl = models.lookup('<%s as %s>::%s' % (ty, trait, method))
            if mdl: return mdl(ex, args)
            raise Unsupported('no unique impl of %s::%s for %s (%d)' % (trait, method, ty, len(cands)))
        f, rel, tr_, ty_, derived = cands[0]
        if derived:
            from . import models
            mdl = models.derived_model(simple_name(tr_), method)
            if mdl: return mdl(ex, args)
        a = list(args)
        if isinstance(deref(a[0]), BoxV) and f.args and not f.args[0][1].startswith('Box') and not f.args[0][1].startswith('std::boxed'):
            b = deref(a[0]); a[0] = Ref(b.f, 0)
        return ex.call_mir(f, a)
    call.nocache = False
    return call


def _trait_default(prog, trait, method):
    """MirFn of a trait's provided (default) method, printed as `path::Trait::method`"""
    if not trait: return None
    cands = [f for f in prog.free.get(method, []) if f.name == '%s::%s' % (trait, method) or f.name.endswith('::%s::%s' % (trait, method))]
    return cands[0] if len(cands) == 1 else None


def _qual_match(tyfull, rel):
    """does type path text (e.g. `ir::Expression`) belong with an impl in file `rel`?"""
    t = tyfull or ''
    for seg in re.findall(r'([a-z_0-9]+)::', t):
        if ('/' + seg + '.rs') in ('/' + rel): return True
    if 'ir::' in t or 'intermediate_representation' in t:
        return 'intermediate_representation' in rel or 'control_flow_graph' in rel or 'program_analysis' in rel
    if 'ast::' in t or 'abstract_syntax_tree' in t:
        return 'abstract_syntax_tree' in rel or 'parser' in rel
    return False


def _same_tail(a, b):
    sa = [x for x in a.split('::') if not x.startswith('circomspect_')]; sb = [x for x in b.split('::') if not x.startswith('circomspect_')]
    n = min(len(sa), len(sb), 2)
    return n > 0 and sa[-n:] == sb[-n:]


def _parse_callee(c):
    """-> (trait|None, type text, method, type text) for `<T as Tr>::m` and `Path::Type::m`."""
    if not c.startswith('<'):
        mm = re.search(r'::<impl ([A-Za-z_][\w:]*(?:<.*>)?)>::(\w+)(?:::<.*>)?$', c)
        if mm: return (None, mm.group(1), mm.group(2), mm.group(1))
    if c.startswith('<'):
        close = _angle_close(c, 0)
        inner = c[1:close]
        rest = c[close + 1:]
        m = re.match(r'::(\w+)', rest)
        if not m: return None
        k = _top_as(inner)
        if k < 0: return (None, inner, m.group(1), inner)
        return (inner[k + 4:], inner[:k], m.group(1), inner[:k])
    segs = _path_segments(c)
    if len(segs) >= 2:
        return (None, segs[-2], segs[-1], '::'.join(segs[:-1]))
    return None


def _angle_close(s, i):
    depth = 0; j = i
    while j < len(s):
        c = s[j]
        if c in '"\'':
            j = mirparse.skip_quote(s, j); continue
        if c == '<': depth += 1
        elif c == '>' and s[j - 1] != '-':
            depth -= 1
            if depth == 0: return j
        j += 1
    raise ValueError(s)


def _top_as(s):
    depth = 0; j = 0; best = -1
    while j < len(s):
        c = s[j]
        if c in '"\'':
            j = mirparse.skip_quote(s, j); continue
        if c in '<([{': depth += 1
        elif c in ')]}': depth -= 1
        elif c == '>' and s[j - 1] != '-': depth -= 1
        elif depth == 0 and s.startswith(' as ', j): best = j
        j += 1
    return best


def _path_segments(path):
    """`a::B::<G, H>::c` -> ['a','B','c'] (generic argument lists dropped)."""
    out = []; depth = 0; cur = ''; j = 0
    while j < len(path):
        c = path[j]
        if c in '"\'':
            k = mirparse.skip_quote(path, j); cur += path[j:k] if depth == 0 else ''; j = k; continue
        if c in '<([{': depth += 1
        elif c in ')]}': depth -= 1
        elif c == '>':
            if path[j - 1] != '-': depth -= 1
        elif depth == 0:
            if path.startswith('::', j):
                if cur: out.append(cur)
                cur = ''; j += 2; continue
            cur += c
        j += 1
    if cur: out.append(cur)
    return out


def _type_tag(segs):
    return '::'.join(segs[-2:]) if len(segs) >= 2 else segs[-1]


def _promoted_matches(defname, reftext):
    a = _path_segments(re.sub(r'<impl at [^>]*>', '', defname)); b = _path_segments(reftext)
    return a[-2:] == b[-2:]


def _unescape(s):
    if '\\' not in s: return s
    out = []; i = 0
    while i < len(s):
        c = s[i]
        if c != '\\': out.append(c); i += 1; continue
        n = s[i + 1]
        if n == 'n': out.append('\n'); i += 2
        elif n == 't': out.append('\t'); i += 2
        elif n == 'r': out.append('\r'); i += 2
        elif n == '0': out.append('\0'); i += 2
        elif n == 'u':
            j = s.index('}', i); out.append(chr(int(s[i + 3:j], 16))); i = j + 1
        elif n == 'x': out.append(chr(int(s[i + 2:i + 4], 16))); i += 4
        else: out.append(n); i += 2
    return ''.join(out)


def _unescape_bytes(s):
    out = bytearray(); i = 0
    while i < len(s):
        c = s[i]
        if c != '\\': out += c.encode('utf-8'); i += 1; continue
        n = s[i + 1]
        if n == 'x': out.append(int(s[i + 2:i + 4], 16)); i += 4
        elif n == 'n': out.append(10); i += 2
        elif n == 't': out.append(9); i += 2
        elif n == 'r': out.append(13); i += 2
        elif n == '0': out.append(0); i += 2
        else: out += n.encode(); i += 2
    return bytes(out)


Exec.prog_const_cache = {}


# ---------------------------------------------------------------------------------------- exploration

def explore(h, entry, mk_args, post=None, pre=None, stats=None, max_paths=None, on_path=None, seed=0, base=None):
    """Run `entry` (MirFn or python callable(ex)->value) over all feasible paths.

    mk_args(ex) -> argument list (fresh values per path); pre(ex): assumptions added before the
    call; post(ex, result): harness obligations.  Returns (stats, violations, inconclusive list).
    """
    stats = stats or Stats()
    pending = [[]]; violations = []; incon = []
    solver = z3.Solver()
    solver.set('timeout', h.query_timeout_ms)
    if seed: solver.set('random_seed', seed)
    for c in (base or []): solver.add(c)
    if base and solver.check() != z3.sat:
        stats.dead += 1
        return stats, violations, incon          # the assumptions of this task are unsatisfiable: nothing to explore
    while pending:
        if max_paths and stats.paths >= max_paths:
            incon.append('path limit %d reached' % max_paths); break
        dec = pending.pop()
        ex = Exec(h, solver, list(dec), pending, stats)
        solver.push()
        try:
            if pre: pre(ex)
            args = mk_args(ex) if mk_args else []
            if callable(entry) and not isinstance(entry, mirparse.MirFn): res = entry(ex, *args)
            else: res = ex.call_mir(entry, args)
            if post: post(ex, res)
            stats.paths += 1
            if on_path: on_path(ex, res)
        except PathDead:
            stats.dead += 1
        except PathEnd:
            stats.paths += 1
        except (Unsupported, Budget) as e:
            where = ''
            try: where = '   [at ' + ex.where() + ']'
            except Exception: pass
            incon.append('%s: %s%s' % (type(e).__name__, e, where if 'called from' not in str(e) else ''))
            if os.environ.get('MIRSYM_TRACE'):
                import traceback; traceback.print_exc()
            stats.paths += 1
        finally:
            violations += ex.violations
            solver.pop()
    stats.inconclusive += incon
    return stats, violations, incon
