"""rustc MIR text (``--emit=mir``) -> Python structures.

The printed MIR is the only input; nothing here knows about circomspect.  Statements
are parsed lazily (on first execution) and cached on the block.

Data model (plain tuples, for speed):

 place    ('local', n) | ('deref', p) | ('field', p, idx, ty) | ('downcast', p, name)
          | ('index', p, n) | ('cindex', p, off, minlen, from_end) | ('subslice', p, a, b, from_end)
 operand  ('copy', place) | ('move', place) | ('const', text)
 rvalue   ('use', op) | ('ref', mut, place) | ('rawptr', place) | ('binop', name, a, b)
          | ('unop', name, a) | ('discr', place) | ('tuple', [op]) | ('array', [op])
          | ('repeat', op, n) | ('adt', path, [(fieldname|None, op)]) | ('cast', op, ty, kind)
          | ('closure', span, [(name, op)]) | ('len', place) | ('unit_or_path', path)
 stmt     ('assign', place, rvalue) | ('setdiscr', place, n) | ('nop',)
 term     ('goto', bb) | ('return',) | ('unreachable',) | ('resume',)
          | ('switch', op, [(int, bb)], otherwise_bb|None) | ('drop', place, bb)
          | ('assert', negated, op, msg, bb) | ('call', dest|None, callee, [op], bb|None)
"""
import re, os, glob

_INT = re.compile(r'-?\d+')


class MirFn:
    __slots__ = ('name', 'sig', 'args', 'ret', 'locals', 'blocks', 'crate', 'lines', '_parsed', 'debug', 'promoted')

    def __init__(self, name, sig):
        self.name = name; self.sig = sig; self.args = []; self.ret = ''; self.locals = {}
        self.blocks = {}; self.crate = None; self.lines = 0; self._parsed = {}; self.debug = {}
        self.promoted = None

    def block(self, bb):
        p = self._parsed.get(bb)
        if p is None:
            raw = self.blocks[bb]
            stmts = [parse_stmt(s) for s in raw[:-1]]
            stmts = [s for s in stmts if s[0] != 'nop']
            p = (stmts, parse_term(raw[-1]))
            self._parsed[bb] = p
        return p


# ----------------------------------------------------------------------------- low-level scanning

def skip_quote(s, i):
    """s[i] is ' or ".  Return index after the literal, or i+1 for a lifetime tick."""
    q = s[i]
    if q == '"':
        j = i + 1
        while s[j] != '"':
            j += 2 if s[j] == '\\' else 1
        return j + 1
    # char literal vs lifetime
    if i + 2 < len(s) and s[i + 1] == '\\':
        j = i + 2
        if s[j] == 'u':
            j = s.index('}', j)
        elif s[j] == 'x':
            j += 2
        j += 1
        assert s[j] == "'", s[i:i + 12]
        return j + 1
    if i + 2 < len(s) and s[i + 2] == "'":
        return i + 3
    return i + 1      # lifetime


def match_close(s, i):
    """s[i] in '([{'.  Index of the matching closer (quote aware)."""
    depth = 0; j = i; n = len(s)
    while j < n:
        c = s[j]
        if c in '"\'':
            j = skip_quote(s, j); continue
        if c in '([{':
            depth += 1
        elif c in ')]}':
            depth -= 1
            if depth == 0: return j
        j += 1
    raise ValueError('unbalanced: ' + s[i:i + 80])


def split_top(s, sep=','):
    """Split at top-level separators (outside (), [], {}, <>, quotes)."""
    out = []; depth = 0; cur = []; j = 0; n = len(s); start = 0
    while j < n:
        c = s[j]
        if c in '"\'':
            j = skip_quote(s, j); continue
        if c in '([{':
            depth += 1
        elif c in ')]}':
            depth -= 1
        elif c == '<':
            # generic bracket unless it is a comparison (not present in operands)
            depth += 1
        elif c == '>':
            if j > 0 and s[j - 1] == '-':
                pass
            else:
                depth -= 1
        elif c == sep and depth == 0:
            out.append(s[start:j].strip()); start = j + 1
        j += 1
    last = s[start:].strip()
    if last: out.append(last)
    return out


# ----------------------------------------------------------------------------- places / operands

def parse_place_at(s, i):
    c = s[i]
    if c == '_':
        m = _INT.match(s, i + 1)
        res = ('local', int(m.group())); j = m.end()
    elif s.startswith('(*', i):
        p, j = parse_place_at(s, i + 2)
        assert s[j] == ')', s
        res = ('deref', p); j += 1
    elif c == '(':
        p, j = parse_place_at(s, i + 1)
        close = match_close(s, i)
        if s[j] == '.':
            m = _INT.match(s, j + 1)
            assert s.startswith(': ', m.end()), s
            res = ('field', p, int(m.group()), s[m.end() + 2:close])
        elif s.startswith(' as ', j):
            res = ('downcast', p, s[j + 4:close])
        else:
            raise ValueError('place: ' + s)
        j = close + 1
    else:
        raise ValueError('place: ' + s[i:])
    while j < len(s) and s[j] == '[':
        close = match_close(s, j)
        inner = s[j + 1:close]
        m = re.fullmatch(r'_(\d+)', inner)
        if m:
            res = ('index', res, int(m.group(1)))
        else:
            m = re.fullmatch(r'(-?)(\d+) of (\d+)', inner)
            if m:
                res = ('cindex', res, int(m.group(2)), int(m.group(3)), m.group(1) == '-')
            else:
                m = re.fullmatch(r'(\d+)(\.\.|:)(-?)(\d*)', inner)
                if not m: raise ValueError('index: ' + s)
                res = ('subslice', res, int(m.group(1)), int(m.group(4)) if m.group(4) else None, m.group(3) == '-')
        j = close + 1
    return res, j


def parse_place(s):
    s = s.strip()
    p, j = parse_place_at(s, 0)
    if j != len(s): raise ValueError('trailing in place: ' + s)
    return p


def parse_operand(s):
    s = s.strip()
    if s.startswith('no_retag '): s = s[9:]
    if s.startswith('copy '): return ('copy', parse_place(s[5:]))
    if s.startswith('move '): return ('move', parse_place(s[5:]))
    if s.startswith('const '): return ('const', s[6:])
    if re.match(r'[A-Za-z_<{]', s): return ('const', s)     # bare fn item / path
    raise ValueError('operand: ' + s)


_BINOPS = {'Add', 'Sub', 'Mul', 'Div', 'Rem', 'BitXor', 'BitAnd', 'BitOr', 'Shl', 'Shr', 'Eq', 'Lt', 'Le', 'Ne', 'Ge',
           'Gt', 'Cmp', 'Offset', 'AddWithOverflow', 'SubWithOverflow', 'MulWithOverflow', 'AddUnchecked',
           'SubUnchecked', 'MulUnchecked', 'ShlUnchecked', 'ShrUnchecked'}
_UNOPS = {'Not', 'Neg', 'PtrMetadata'}


def _is_operand(s):
    return s.startswith(('copy ', 'move ', 'const ', 'no_retag '))


def parse_rvalue(r):
    r = r.strip()
    if _is_operand(r):
        # cast?  "<operand> as TY (Kind)"
        if r.endswith(')'):
            m = re.search(r' \((IntToInt|Transmute|PtrToPtr|FnPtrToPtr|IntToFloat|FloatToInt|FloatToFloat|PointerCoercion\(.*\)|PointerExposeProvenance|PointerWithExposedProvenance|Subtype)\)$', r)
            if m:
                body = r[:m.start()]
                # find " as " at top level from the right of the operand
                k = _find_as(body)
                return ('cast', parse_operand(body[:k]), body[k + 4:], m.group(1))
        return ('use', parse_operand(r))
    if r.startswith('&raw '):
        m = re.match(r'&raw (const|mut) (\(fake\) )?', r)
        return ('rawptr', parse_place(r[m.end():]))
    if r.startswith('&'):
        rest = r[1:]
        mut = False
        if rest.startswith('mut '): mut = True; rest = rest[4:]
        if rest.startswith('fake shallow '): rest = rest[13:]
        elif rest.startswith('fake '): rest = rest[5:]
        elif rest.startswith('two_phase '): rest = rest[10:]
        return ('ref', mut, parse_place(rest))
    m = re.match(r'([A-Za-z]+)\(', r)
    if m and r.endswith(')'):
        name = m.group(1)
        inner = r[m.end():-1]
        if name in _BINOPS:
            a, b = split_top(inner)
            return ('binop', name, parse_operand(a), parse_operand(b))
        if name in _UNOPS:
            return ('unop', name, parse_operand(inner))
        if name == 'discriminant': return ('discr', parse_place(inner))
        if name == 'Len': return ('len', parse_place(inner))
        if name == 'CopyForDeref': return ('use', ('copy', parse_place(inner)))
    if r.startswith('['):
        close = match_close(r, 0)
        assert close == len(r) - 1, r
        inner = r[1:-1]
        parts = split_top(inner, ';')
        if len(parts) == 2 and _is_operand(parts[0]):
            return ('repeat', parse_operand(parts[0]), parts[1].strip())
        return ('array', [parse_operand(x) for x in split_top(inner)])
    if r.startswith('(') and match_close(r, 0) == len(r) - 1:
        inner = r[1:-1].strip()
        if inner == '': return ('tuple', [])
        parts = split_top(inner)
        if all(_is_operand(x) for x in parts):
            return ('tuple', [parse_operand(x) for x in parts])
    if r == '()': return ('tuple', [])
    if r.startswith('{closure@') or r.startswith('{coroutine@'):
        close = match_close(r, 0)
        span = r[:close + 1]
        rest = r[close + 1:].strip()
        caps = []
        if rest:
            assert rest[0] == '{' and rest[-1] == '}', r
            for part in split_top(rest[1:-1]):
                k = part.index(': ')
                caps.append((part[:k].strip(), parse_operand(part[k + 2:])))
        return ('closure', span, caps)
    # aggregates: Path { f: op, .. } | Path(op, ..) | Path
    if r.endswith('}'):
        # find the top-level '{' that opens the field list
        k = _find_open_from_end(r)
        path = r[:k].strip()
        fields = []
        for part in split_top(r[k + 1:-1]):
            kk = part.index(': ')
            fields.append((part[:kk].strip(), parse_operand(part[kk + 2:])))
        return ('adt', path, fields)
    if r.endswith(')'):
        k = _find_open_from_end(r)
        path = r[:k].strip()
        parts = split_top(r[k + 1:-1])
        if all(_is_operand(x) for x in parts):
            return ('adt', path, [(None, parse_operand(x)) for x in parts])
        raise ValueError('rvalue: ' + r)
    if re.fullmatch(r'[A-Za-z_<][^ ]*( as [^ ]+>[^ ]*)?', r) or re.fullmatch(r'[A-Za-z_<].*', r):
        return ('adt', r, [])
    raise ValueError('rvalue: ' + r)


def _find_as(body):
    """index of the ' as ' that separates operand and target type in a cast rvalue."""
    # operand is "copy PLACE"/"move PLACE"/"const X"; PLACE is parsed from the left
    if body.startswith(('copy ', 'move ')):
        _, j = parse_place_at(body, 5)
        assert body.startswith(' as ', j), body
        return j
    # const: take the last top-level ' as '
    depth = 0; j = 0; best = -1
    while j < len(body):
        c = body[j]
        if c in '"\'':
            j = skip_quote(body, j); continue
        if c in '([{<': depth += 1
        elif c in ')]}': depth -= 1
        elif c == '>' and body[j - 1] != '-': depth -= 1
        elif depth == 0 and body.startswith(' as ', j): best = j
        j += 1
    assert best >= 0, body
    return best


def _find_open_from_end(r):
    """index of the opener matching the final closer of r."""
    stack = []; j = 0; n = len(r)
    while j < n:
        c = r[j]
        if c in '"\'':
            j = skip_quote(r, j); continue
        if c in '([{':
            stack.append(j)
        elif c in ')]}':
            k = stack.pop()
            if j == n - 1: return k
        j += 1
    raise ValueError('no opener: ' + r)


# ----------------------------------------------------------------------------- statements / terminators

_NOPS = ('StorageLive', 'StorageDead', 'nop', 'FakeRead', 'PlaceMention', 'Retag', 'AscribeUserType', 'Coverage',
         'ConstEvalCounter', 'BackwardIncompatibleDropHint')


def _find_assign(s):
    """index of the ' = ' that separates lhs place and rvalue."""
    _, j = parse_place_at(s, 0)
    assert s.startswith(' = ', j), s
    return j


def parse_stmt(s):
    if s.startswith(_NOPS) or s.startswith('//'): return ('nop',)
    if s.startswith('discriminant('):
        m = re.fullmatch(r'discriminant\((.+)\) = (\d+);', s)
        return ('setdiscr', parse_place(m.group(1)), int(m.group(2)))
    if s.startswith('Deinit('): return ('nop',)
    if s.startswith('assume('): return ('assume', parse_operand(s[7:-2]))
    assert s.endswith(';'), s
    k = _find_assign(s)
    return ('assign', parse_place(s[:k]), parse_rvalue(s[k + 3:-1]))


_TARGET = re.compile(r' -> \[return: (bb\d+), unwind[^\]]*\];$')
_TARGET_DIV = re.compile(r' -> (?:unwind[^;]*|bb\d+);$')
_TARGET_UNREACH = re.compile(r' -> \[return: (bb\d+), unwind unreachable\];$')


def parse_term(t):
    if t == 'return;': return ('return',)
    if t == 'unreachable;': return ('unreachable',)
    if t.startswith('resume'): return ('resume',)
    if t.startswith('goto -> '): return ('goto', t[8:-1])
    if t.startswith('switchInt('):
        close = match_close(t, 9)
        op = parse_operand(t[10:close])
        m = re.fullmatch(r' -> \[(.+)\];', t[close + 1:])
        arms = []; other = None
        for a in m.group(1).split(', '):
            k, bb = a.split(': ')
            if k == 'otherwise': other = bb
            else: arms.append((int(k), bb))
        return ('switch', op, arms, other)
    if t.startswith('drop('):
        close = match_close(t, 4)
        m = re.match(r' -> \[return: (bb\d+)', t[close + 1:])
        return ('drop', parse_place(t[5:close]), m.group(1))
    if t.startswith('assert('):
        close = match_close(t, 6)
        parts = split_top(t[7:close])
        c = parts[0]; neg = False
        if c.startswith('!'): neg = True; c = c[1:]
        m = re.match(r' -> \[success: (bb\d+)', t[close + 1:])
        return ('assert', neg, parse_operand(c), parts[1] if len(parts) > 1 else '', m.group(1))
    if t.startswith('falseEdge') or t.startswith('falseUnwind'):
        m = re.search(r'\[real: (bb\d+)', t)
        return ('goto', m.group(1))
    if t.startswith('terminate') or t.startswith('abort'): return ('abort',)
    # call
    m = _TARGET.search(t)
    nxt = None
    if m:
        body = t[:m.start()]; nxt = m.group(1)
    else:
        m = _TARGET_DIV.search(t)
        if m: body = t[:m.start()]
        else:
            m = re.search(r' -> \[return: (bb\d+)[^\]]*\];$', t)
            if not m: raise ValueError('terminator: ' + t)
            body = t[:m.start()]; nxt = m.group(1)
    dest = None
    if body[0] in '_(':
        try:
            _, j = parse_place_at(body, 0)
            if body.startswith(' = ', j):
                dest = parse_place(body[:j]); body = body[j + 3:]
        except (ValueError, AssertionError):
            pass
    assert body.endswith(')'), t
    k = _find_open_from_end(body)
    callee = body[:k].strip()
    args = [parse_operand(a) for a in split_top(body[k + 1:-1])]
    return ('call', dest, callee, args, nxt)


# ----------------------------------------------------------------------------- file level

_FN_HEAD = re.compile(r'^(?:const |static (?:mut )?)?(fn )?(.+?)(\(.*\))? ?(?:->|:) (.+?) (?:= )?\{$')


def parse_mir_file(path, crate):
    fns = {}
    cur = None; curbb = None
    with open(path) as f:
        lines = f.read().split('\n')
    n = len(lines); i = 0
    while i < n:
        line = lines[i]; i += 1
        if cur is None:
            if line.startswith('fn ') and line.endswith('{'):
                name, args, ret = _split_fn_head(line[3:-2])
                cur = MirFn(name, line); cur.crate = crate; cur.ret = ret
                cur.args = args
                fns[name] = cur; curbb = None
            elif (line.startswith('const ') or line.startswith('static ') or line.startswith('promoted[')) and line.endswith('{'):
                # constants / statics / promoteds:  "const NAME: TY = {"   "promoted[0] in fn: TY = {"
                body = re.sub(r'^(?:const |static (?:mut )?)', '', line)[:-4]      # strip ' = {'
                k = _top_colon(body)
                if k > 0:
                    name = body[:k]
                    cur = MirFn(name, line); cur.crate = crate; cur.ret = body[k + 2:]; cur.args = []
                    fns[name] = cur; curbb = None
            continue
        cur.lines += 1
        if line == '}':
            cur = None; continue
        if curbb is None:
            m = re.match(r'^    (bb\d+)(?: \(cleanup\))?: \{$', line)
            if m:
                curbb = m.group(1); cur.blocks[curbb] = []
                continue
            m = re.match(r'^\s+let (?:mut )?_(\d+): (.+);$', line)
            if m:
                cur.locals[int(m.group(1))] = m.group(2); continue
            m = re.match(r'^\s+debug (\S+) => (.+);$', line)
            if m:
                cur.debug[m.group(1)] = m.group(2)
            continue
        if line == '    }':
            curbb = None; continue
        s = line.strip()
        if s: cur.blocks[curbb].append(s)
    return fns


def _top_colon(s):
    """index of the first ': ' outside <>, (), []"""
    depth = 0; j = 0
    while j < len(s):
        c = s[j]
        if c in '<([{': depth += 1
        elif c in ')]}': depth -= 1
        elif c == '>' and s[j - 1] != '-': depth -= 1
        elif depth == 0 and s.startswith(': ', j): return j
        j += 1
    return -1


def _split_fn_head(h):
    """'name(_1: T, _2: U) -> R'  ->  (name, [(n, ty)], R)"""
    # name may contain parens/angle brackets (impl spans, closures); the argument list is the
    # parenthesised group that is followed by ' -> '
    k = h.rfind(') -> ')
    # several ') -> ' may occur (fn types in args / return); choose the one whose open paren is
    # preceded by the name and whose content starts with '_1: ' or is empty
    pos = 0; cands = []
    while True:
        k = h.find(') -> ', pos)
        if k < 0: break
        cands.append(k); pos = k + 1
    for k in cands:
        # find opener
        try:
            stack = []; j = 0; op = None
            while j <= k:
                c = h[j]
                if c in '"\'':
                    j = skip_quote(h, j); continue
                if c in '([{': stack.append(j)
                elif c in ')]}':
                    o = stack.pop()
                    if j == k: op = o
                j += 1
        except (IndexError, ValueError, AssertionError):
            continue
        if op is None: continue
        inner = h[op + 1:k]
        if inner == '' or inner.startswith('_1: '):
            args = []
            for a in split_top(inner):
                m = re.match(r'_(\d+): (.+)', a)
                args.append((int(m.group(1)), m.group(2)))
            return h[:op], args, h[k + 5:]
    raise ValueError('fn head: ' + h)


# ----------------------------------------------------------------------------- impl header map

_IMPL_AT = re.compile(r'<impl at ([^:>]+):(\d+):(\d+): (\d+):(\d+)>')


class SourceIndex:
    """Maps `<impl at file:l:c: l:c>` spans to ('Trait' | None, 'Type', derived?) by reading the source."""

    def __init__(self, repo):
        self.repo = repo; self._files = {}; self._cache = {}

    def file(self, rel):
        if rel not in self._files:
            p = os.path.join(self.repo, rel)
            with open(p) as f: self._files[rel] = f.read().split('\n')
        return self._files[rel]

    def header(self, rel, l1, c1, l2, c2):
        key = (rel, l1, c1, l2, c2)
        if key in self._cache: return self._cache[key]
        lines = self.file(rel)
        text = lines[l1 - 1][c1 - 1:] if l1 != l2 else lines[l1 - 1][c1 - 1:c2 - 1]
        if l1 != l2:
            text = ' '.join([lines[l1 - 1][c1 - 1:]] + lines[l1:l2 - 1] + [lines[l2 - 1][:c2 - 1]])
        res = None
        text = text.strip()
        if text.startswith('impl'):
            t = text[4:].strip()
            if t.startswith('<'):
                # skip generics
                depth = 0
                for j, ch in enumerate(t):
                    if ch == '<': depth += 1
                    elif ch == '>' and t[j - 1] != '-':
                        depth -= 1
                        if depth == 0: break
                t = t[j + 1:].strip()
            t = t.split(' where ')[0].rstrip('{ ').strip()
            if ' for ' in t:
                tr, ty = t.split(' for ', 1)
                res = (tr.strip(), ty.strip(), False)
            else:
                res = (None, t.strip(), False)
        else:
            # derive: text is the trait name inside #[derive(..)]; the type is the next item
            tr = text
            for k in range(l1 - 1, min(l1 + 40, len(lines))):
                m = re.match(r'\s*(?:pub(?:\([a-z]+\))? )?(?:struct|enum|union) (\w+)', lines[k])
                if m:
                    res = (tr, m.group(1), True); break
        self._cache[key] = res
        return res


def load_crate(mirpath, crate):
    return parse_mir_file(mirpath, crate)


if __name__ == '__main__':
    import sys, collections
    bad = collections.Counter(); total = 0
    for path in sys.argv[1:]:
        fns = parse_mir_file(path, os.path.basename(path))
        for f in fns.values():
            for bb in f.blocks:
                total += 1
                try: f.block(bb)
                except Exception as e:
                    bad[str(e)[:160]] += 1
        print(path, len(fns), 'fns')
    print('blocks', total, 'unparsed', sum(bad.values()))
    for k, v in bad.most_common(40): print(v, k)
