"""All MIR of /repo's current tree + name resolution."""
import os, re, glob, subprocess, hashlib, time
from . import mirparse
from .rustdefs import Defs, simple_name

REPO = os.environ.get('VERIF_REPO', '/repo')
CACHE = os.environ.get('VERIF_CACHE', '/verif/.cache')

CRATES = {
    'algebra': ('circomspect-circom-algebra', '--lib', 'circomspect_circom_algebra', 'circom_algebra'),
    'structure': ('circomspect-program-structure', '--lib', 'circomspect_program_structure', 'program_structure'),
    'parser': ('circomspect-parser', '--lib', 'circomspect_parser', 'parser'),
    'analysis': ('circomspect-program-analysis', '--lib', 'circomspect_program_analysis', 'program_analysis'),
    'cli': ('circomspect', '--bin circomspect', 'circomspect', 'cli'),
}


def mirdump(crates, features=None):
    """(Re)generate MIR for the given crates from /repo's working tree; returns {crate: path}."""
    out = {}
    env = dict(os.environ, CARGO_NET_OFFLINE='true', RUSTFLAGS='')
    tdir = os.path.join(CACHE, 'mir')
    for c in crates:
        pkg, kind, stem, srcdir = CRATES[c]
        cmd = ['cargo', '+nightly', 'rustc', '-q', '--offline', '-p', pkg] + kind.split() + ['--target-dir', tdir]
        if features and c in features: cmd += ['--features', features[c]]
        cmd += ['--', '--emit=mir', '-C', 'debug-assertions=off', '-C', 'overflow-checks=on', '-Awarnings']
        t = time.time()
        r = subprocess.run(cmd, cwd=REPO, env=env, capture_output=True, text=True)
        if r.returncode != 0:
            raise RuntimeError('mirdump failed for %s:\n%s' % (c, r.stderr[-3000:]))
        files = glob.glob(os.path.join(tdir, 'debug', 'deps', stem + '-*.mir'))
        if not files: raise RuntimeError('no MIR produced for ' + c)
        out[c] = max(files, key=os.path.getmtime)
    return out


def source_hash(crate):
    srcdir = os.path.join(REPO, CRATES[crate][3], 'src')
    h = hashlib.sha256()
    for p in sorted(glob.glob(os.path.join(srcdir, '**', '*'), recursive=True)):
        if os.path.isfile(p):
            h.update(p.encode()); h.update(open(p, 'rb').read())
    return h.hexdigest()[:16]


class Program:
    def __init__(self, crates, features=None):
        self.paths = mirdump(crates, features)
        self.crates = {}
        self.defs = Defs(REPO)
        self.src = mirparse.SourceIndex(REPO)
        self.methods = {}      # (trait|None, type simple, method) -> [MirFn]
        self.closures = {}     # span text -> MirFn
        self.free = {}         # last segment -> [MirFn]
        self.hashes = {c: source_hash(c) for c in crates}
        self.simple_consts = {}      # `const NAME: ty = const 20_usize;` items (printed without a body)
        for c, p in self.paths.items():
            fns = mirparse.parse_mir_file(p, c)
            self.crates[c] = fns
            for f in fns.values(): self._index(f)
            for m in re.finditer(r'^const ([\w:]+): [iu](?:8|16|32|64|128|size) = const (-?\d+)_[iu]\w+;', open(p).read(), re.M):
                self.simple_consts[m.group(1)] = int(m.group(2))
        self._resolve_cache = {}

    # ------------------------------------------------------------------ indexing
    def _index(self, f):
        name = f.name
        if '::promoted[' in name: return
        m = re.search(r'\{closure#\d+\}$', name)
        if m or '{closure#' in name:
            if f.args:
                ty = f.args[0][1]
                mm = re.search(r'\{closure@[^}]*\}', ty)
                if mm and name.endswith('}'): self.closures[mm.group()] = f
            return
        mm = list(mirparse._IMPL_AT.finditer(name))
        if mm:
            last = mm[-1]
            rest = name[last.end():]
            if rest.startswith('::'):
                method = rest[2:]
                hdr = self.src.header(last.group(1), int(last.group(2)), int(last.group(3)), int(last.group(4)), int(last.group(5)))
                if hdr:
                    tr, ty, derived = hdr
                    key = (simple_name(tr) if tr else None, simple_name(ty), method)
                    f_info = (f, last.group(1), tr, ty, derived)
                    self.methods.setdefault(key, []).append(f_info)
            return
        seg = name.split('::')[-1]
        self.free.setdefault(seg, []).append(f)

    def fn(self, crate, name):
        return self.crates[crate][name]

    def find(self, name_suffix, crate=None):
        """free function by (suffix of) path."""
        hits = []
        for c, fns in self.crates.items():
            if crate and c != crate: continue
            for n, f in fns.items():
                if n == name_suffix or n.endswith('::' + name_suffix): hits.append(f)
        if len(hits) != 1: raise KeyError('%s: %d candidates %s' % (name_suffix, len(hits), [h.name for h in hits][:5]))
        return hits[0]

    def method(self, trait, ty, method, file_hint=None):
        cands = self.methods.get((trait, ty, method), [])
        if file_hint: cands = [c for c in cands if file_hint in c[1]] or cands
        if len(cands) != 1:
            raise KeyError('method %s/%s/%s: %d candidates %s' % (trait, ty, method, len(cands), [c[0].name for c in cands][:5]))
        return cands[0][0]

    def method_info(self, trait, ty, method):
        return self.methods.get((trait, ty, method), [])

    def total_lines(self, fns):
        return sum(f.lines for f in fns)
