use program_structure::report::MessageCategory;
use std::cmp::Ordering;

fn any_cat() -> MessageCategory {
    let k: u8 = kani::any();
    kani::assume(k < 3);
    match k {
        0 => MessageCategory::Info,
        1 => MessageCategory::Warning,
        _ => MessageCategory::Error,
    }
}
fn sev(c: MessageCategory) -> u8 {
    match c {
        MessageCategory::Info => 0,
        MessageCategory::Warning => 1,
        MessageCategory::Error => 2,
    }
}

/// `--level L` shows a report iff category >= L; that is only meaningful if the order is the
/// severity order Info < Warning < Error and is total and consistent.
#[kani::proof]
fn category_order_is_severity_order() {
    let a = any_cat();
    let b = any_cat();
    assert!(a.cmp(&b) == sev(a).cmp(&sev(b)));
    assert!(a.partial_cmp(&b) == Some(a.cmp(&b)));
    assert!((a >= b) == (sev(a) >= sev(b)));
    assert!((a == b) == (a.cmp(&b) == Ordering::Equal));
    kani::cover!(a > b);
}
