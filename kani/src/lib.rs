//! Kani harnesses over the compiled code of /repo (path dependency): pure enum kernels only.
//! C07-K1: Degree / DegreeRange transfer functions are sound and monotone.
//! C03-K1: MessageCategory is a total order Info < Warning < Error.
#![allow(dead_code)]
#[cfg(kani)]
mod degree;
#[cfg(kani)]
mod message;
