use program_structure::ir::degree_meta::{Degree, DegreeRange};

fn any_degree() -> Degree {
    let k: u8 = kani::any();
    kani::assume(k < 4);
    of_rank(k)
}
fn of_rank(k: u8) -> Degree {
    match k {
        0 => Degree::Constant,
        1 => Degree::Linear,
        2 => Degree::Quadratic,
        _ => Degree::NonQuadratic,
    }
}
fn rank(d: Degree) -> u8 {
    match d {
        Degree::Constant => 0,
        Degree::Linear => 1,
        Degree::Quadratic => 2,
        Degree::NonQuadratic => 3,
    }
}
fn any_range() -> DegreeRange {
    let a = any_degree();
    let b = any_degree();
    kani::assume(rank(a) <= rank(b));
    DegreeRange::new(a, b)
}

pub const N_INFIX: u8 = 20;
pub const N_PREFIX: u8 = 3;

/// Reference: the least sound upper bound on the total degree of `x op y` given the least
/// upper bounds x, y of the operands (3 = not bounded by quadratic / not a polynomial).
fn ref_infix(op: u8, x: u8, y: u8) -> u8 {
    match op {
        0 | 1 => core::cmp::max(x, y),              // add, sub
        2 => core::cmp::min(x + y, 3),              // mul
        3 => { if y == 0 { x } else { 3 } }         // div by a constant is multiplication by a constant
        _ => { if x == 0 && y == 0 { 0 } else { 3 } } // pow, int_div, mod, shifts, comparisons, bitwise, boolean
    }
}
fn ref_prefix(op: u8, x: u8) -> u8 {
    match op {
        0 => x,                                     // unary minus
        _ => { if x == 0 { 0 } else { 3 } }         // complement, boolean not
    }
}

fn apply_infix(op: u8, a: &Degree, b: &Degree) -> Degree {
    match op {
        0 => a.add(b), 1 => a.infix_sub(b), 2 => a.mul(b), 3 => a.div(b), 4 => a.pow(b), 5 => a.int_div(b),
        6 => a.modulo(b), 7 => a.shift_left(b), 8 => a.shift_right(b), 9 => a.lesser(b), 10 => a.greater(b),
        11 => a.lesser_eq(b), 12 => a.greater_eq(b), 13 => a.equal(b), 14 => a.not_equal(b), 15 => a.bit_or(b),
        16 => a.bit_and(b), 17 => a.bit_xor(b), 18 => a.bool_or(b), _ => a.bool_and(b),
    }
}
fn apply_infix_range(op: u8, a: &DegreeRange, b: &DegreeRange) -> DegreeRange {
    match op {
        0 => a.add(b), 1 => a.infix_sub(b), 2 => a.mul(b), 3 => a.div(b), 4 => a.pow(b), 5 => a.int_div(b),
        6 => a.modulo(b), 7 => a.shift_left(b), 8 => a.shift_right(b), 9 => a.lesser(b), 10 => a.greater(b),
        11 => a.lesser_eq(b), 12 => a.greater_eq(b), 13 => a.equal(b), 14 => a.not_equal(b), 15 => a.bit_or(b),
        16 => a.bit_and(b), 17 => a.bit_xor(b), 18 => a.bool_or(b), _ => a.bool_and(b),
    }
}
fn apply_prefix(op: u8, a: &Degree) -> Degree {
    match op { 0 => a.prefix_sub(), 1 => a.complement(), _ => a.bool_not() }
}
fn apply_prefix_range(op: u8, a: &DegreeRange) -> DegreeRange {
    match op { 0 => a.prefix_sub(), 1 => a.complement(), _ => a.bool_not() }
}

#[kani::proof]
fn degree_infix_sound() {
    let op: u8 = kani::any();
    kani::assume(op < N_INFIX);
    let x = any_degree();
    let y = any_degree();
    let r = apply_infix(op, &x, &y);
    assert!(rank(r) >= ref_infix(op, rank(x), rank(y)));
    kani::cover!(op == 19 && rank(x) == 3);
}

#[kani::proof]
fn degree_prefix_sound() {
    let op: u8 = kani::any();
    kani::assume(op < N_PREFIX);
    let x = any_degree();
    let r = apply_prefix(op, &x);
    assert!(rank(r) >= ref_prefix(op, rank(x)));
    kani::cover!(op == 2 && rank(x) == 1);
}

/// Soundness of the end-point lifting (this includes the monotonicity it relies on): for every
/// x in ra and y in rb the reference degree of x op y is below the upper end of ra op rb.
#[kani::proof]
fn range_infix_sound() {
    let op: u8 = kani::any();
    kani::assume(op < N_INFIX);
    let ra = any_range();
    let rb = any_range();
    let x = any_degree();
    let y = any_degree();
    kani::assume(ra.contains(x) && rb.contains(y));
    let r = apply_infix_range(op, &ra, &rb);
    assert!(ref_infix(op, rank(x), rank(y)) <= rank(r.end()));
    kani::cover!(op == 2 && rank(x) == 1 && rank(y) == 1);
}

#[kani::proof]
fn range_prefix_sound() {
    let op: u8 = kani::any();
    kani::assume(op < N_PREFIX);
    let ra = any_range();
    let x = any_degree();
    kani::assume(ra.contains(x));
    let r = apply_prefix_range(op, &ra);
    assert!(ref_prefix(op, rank(x)) <= rank(r.end()));
    kani::cover!(op == 1 && rank(x) == 1);
}

#[kani::proof]
fn range_inf_and_predicates() {
    let ra = any_range();
    let rb = any_range();
    let x = any_degree();
    let j = ra.inf(&rb);
    if ra.contains(x) || rb.contains(x) {
        assert!(j.contains(x));
    }
    assert!(ra.contains(x) == (rank(ra.start()) <= rank(x) && rank(x) <= rank(ra.end())));
    assert!(ra.is_constant() == (rank(ra.end()) == 0));
    assert!(ra.is_linear() == (rank(ra.end()) <= 1));
    assert!(ra.is_quadratic() == (rank(ra.end()) <= 2));
    let single: DegreeRange = x.into();
    assert!(rank(single.start()) == rank(x) && rank(single.end()) == rank(x));
    kani::cover!(ra.is_quadratic() && !ra.is_linear());
}

#[kani::proof]
fn degree_order_is_rank_order() {
    let x = any_degree();
    let y = any_degree();
    assert!((x < y) == (rank(x) < rank(y)));
    assert!((x <= y) == (rank(x) <= rank(y)));
    assert!((x == y) == (rank(x) == rank(y)));
    assert!(x.cmp(&y) == rank(x).cmp(&rank(y)));
    assert!(x.partial_cmp(&y) == Some(x.cmp(&y)));
    assert!(rank(core::cmp::max(x, y)) == core::cmp::max(rank(x), rank(y)));
    assert!(rank(core::cmp::min(x, y)) == core::cmp::min(rank(x), rank(y)));
    kani::cover!(x > y);
}
