"""Reference comment lexer (textbook definition, independent of circomspect's stripper).

  //  ... up to, not including, the next newline           -> comment
  /*  ... up to and including the first following */       -> comment
  a /* that is never closed                                -> error (unclosed)
Strings are not special.  Written once as a fold that works on python ints and on z3 terms.
"""
import z3

SL, ST, NL = ord('/'), ord('*'), ord('\n')
CODE, SLASH, LINE, BLOCK, BSTAR = range(5)


def lex_concrete(chars):
    """-> (is_comment list, unclosed, opener_index|None)"""
    n = len(chars); com = [False] * n; st = CODE; opener = None
    for i, c in enumerate(chars):
        if st == CODE:
            st = SLASH if c == SL else CODE
        elif st == SLASH:
            if c == SL: com[i - 1] = com[i] = True; st = LINE
            elif c == ST: com[i - 1] = com[i] = True; st = BLOCK; opener = i - 1
            else: st = CODE      # c != '/' here
        elif st == LINE:
            if c == NL: st = CODE
            else: com[i] = True
        elif st == BLOCK:
            com[i] = True; st = BSTAR if c == ST else BLOCK
        elif st == BSTAR:
            com[i] = True
            st = CODE if c == SL else (BSTAR if c == ST else BLOCK)
    return com, st in (BLOCK, BSTAR), (opener if st in (BLOCK, BSTAR) else None)


def lex_symbolic(chars):
    """same fold over z3 Int chars: -> (is_comment Bool terms, unclosed Bool, opener index Int term)"""
    n = len(chars)
    st = z3.IntVal(CODE); opener = z3.IntVal(-1)
    com = [None] * n
    retro = [z3.BoolVal(False)] * n      # char i-1 becomes comment because char i completes an opener
    for i, c in enumerate(chars):
        c = c if isinstance(c, z3.ExprRef) else z3.IntVal(c)
        opens_line = z3.And(st == SLASH, c == SL)
        opens_block = z3.And(st == SLASH, c == ST)
        if i > 0: retro[i - 1] = z3.Or(opens_line, opens_block)
        com[i] = z3.Or(opens_line, opens_block, z3.And(st == LINE, c != NL), st == BLOCK, st == BSTAR)
        opener = z3.If(opens_block, i - 1, opener)
        st = z3.If(st == CODE, z3.If(c == SL, SLASH, CODE),
             z3.If(st == SLASH, z3.If(c == SL, LINE, z3.If(c == ST, BLOCK, CODE)),
             z3.If(st == LINE, z3.If(c == NL, CODE, LINE),
             z3.If(st == BLOCK, z3.If(c == ST, BSTAR, BLOCK),
                   z3.If(c == SL, CODE, z3.If(c == ST, BSTAR, BLOCK))))))
    com = [z3.Or(com[i], retro[i]) for i in range(n)]
    unclosed = z3.Or(st == BLOCK, st == BSTAR)
    return com, unclosed, opener


def expected_output(chars):
    """concrete reference output (comments blanked byte for byte, newlines may survive) or None if unclosed"""
    com, unclosed, opener = lex_concrete(chars)
    if unclosed: return None, opener
    out = []
    for c, k in zip(chars, com):
        if k: out.append(' ' * len(chr(c).encode('utf-8')) if c != NL else '\n ')   # '\n ' = either accepted
        else: out.append(chr(c))
    return out, None


def lex_decide(ex, chars):
    """the same fold, co-executed with the code under test: every comparison on a symbolic char is
    decided by the solver under the current path condition (forking when both answers are possible).
    -> (is_comment list of python bools, unclosed, opener_index|None)"""
    from mirsym.values import simp, eq
    def is_(c, k):
        r = simp(eq(c, k))
        return r if isinstance(r, bool) else ex.decide(r)
    n = len(chars); com = [False] * n; st = CODE; opener = None
    for i, c in enumerate(chars):
        if st == CODE:
            st = SLASH if is_(c, SL) else CODE
        elif st == SLASH:
            if is_(c, SL): com[i - 1] = com[i] = True; st = LINE
            elif is_(c, ST): com[i - 1] = com[i] = True; st = BLOCK; opener = i - 1
            else: st = CODE
        elif st == LINE:
            if is_(c, NL): st = CODE
            else: com[i] = True
        elif st == BLOCK:
            com[i] = True; st = BSTAR if is_(c, ST) else BLOCK
        elif st == BSTAR:
            com[i] = True
            st = CODE if is_(c, SL) else (BSTAR if is_(c, ST) else BLOCK)
    return com, st in (BLOCK, BSTAR), (opener if st in (BLOCK, BSTAR) else None)
