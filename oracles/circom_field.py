"""Reference semantics of Circom's field operators, written from the Circom language
documentation (operators section), not from circomspect's source.

Two forms of the same definitions:
  * concrete(op, a, b, p)  -> ('Val', int) | ('Bool', bool) | ('Err',)      (python ints)
  * symbolic(op, a, b, p, ctx) -> list of (condition, expectation)          (z3 terms)
    expectation = ('Val', term) | ('Bool', term) | ('Err',) | ('ErrOrVal', term)
p is a concrete prime; a, b are canonical field elements 0 <= a, b < p.
"""
import z3

BINARY = ['add', 'sub', 'mul', 'div', 'idiv', 'mod_op', 'pow', 'shift_l', 'shift_r', 'bit_or', 'bit_and', 'bit_xor',
          'bool_or', 'bool_and', 'eq', 'lesser', 'not_eq', 'lesser_eq', 'greater', 'greater_eq']
UNARY = ['prefix_sub', 'complement_256', 'as_bool', 'not']
USIZE = 2 ** 64


def bits(p): return p.bit_length()


def signed_c(x, p): return x - p if x > p // 2 else x


def concrete(op, a, b, p):
    half = p // 2
    B = lambda c: ('Val', 1 if c else 0)
    if op == 'add': return ('Val', (a + b) % p)
    if op == 'sub': return ('Val', (a - b) % p)
    if op == 'mul': return ('Val', (a * b) % p)
    if op == 'div': return ('Err',) if b % p == 0 else ('Val', a * pow(b, -1, p) % p)
    if op == 'idiv': return ('Err',) if b == 0 else ('Val', a // b)
    if op == 'mod_op': return ('Err',) if b == 0 else ('Val', a % b)
    if op == 'pow': return ('Val', pow(a, b, p))
    if op == 'prefix_sub': return ('Val', (-a) % p)
    if op == 'complement_256': return ('Val', (2 ** 256 - 1 - a) % p)
    if op in ('shift_l', 'shift_r'):
        left = op == 'shift_l'; k = b
        if k > half: left = not left; k = p - k
        if k >= USIZE: return ('ErrOrVal', 0)
        if left:
            if k >= bits(p): return ('Val', 0)
            return ('Val', ((a << k) & (2 ** bits(p) - 1)) % p)
        return ('Val', 0 if k >= bits(p) + 1 else a >> k)
    if op == 'bit_or': return ('Val', (a | b) % p)
    if op == 'bit_and': return ('Val', (a & b) % p)
    if op == 'bit_xor': return ('Val', (a ^ b) % p)
    if op == 'as_bool': return ('Bool', a != 0)
    if op == 'not': return B(a == 0)
    if op == 'bool_or': return B(a != 0 or b != 0)
    if op == 'bool_and': return B(a != 0 and b != 0)
    if op == 'eq': return B(a == b)
    if op == 'not_eq': return B(a != b)
    sa, sb = signed_c(a, p), signed_c(b, p)
    if op == 'lesser': return B(sa < sb)
    if op == 'lesser_eq': return B(sa <= sb)
    if op == 'greater': return B(sa > sb)
    if op == 'greater_eq': return B(sa >= sb)
    raise KeyError(op)


def symbolic(op, a, b, p, ctx):
    """ctx supplies the shared uninterpreted symbols: ctx.modinv(x,p), ctx.modpow(x,e,p), ctx.bitop(name,x,y)."""
    T = z3.BoolVal(True)
    half = p // 2
    one = lambda c: z3.If(c, 1, 0)
    s = lambda x: z3.If(x > half, x - p, x)
    if op == 'add': return [(T, ('Val', (a + b) % p))]
    if op == 'sub': return [(T, ('Val', (a - b) % p))]
    if op == 'mul': return [(T, ('Val', (a * b) % p))]
    if op == 'div': return [(b == 0, ('Err',)), (b != 0, ('Val', (a * ctx.modinv(b, p)) % p))]
    if op == 'idiv': return [(b == 0, ('Err',)), (b != 0, ('Val', a / b))]
    if op == 'mod_op': return [(b == 0, ('Err',)), (b != 0, ('Val', a % b))]
    if op == 'pow': return [(T, ('Val', ctx.modpow(a, b, p)))]
    if op == 'prefix_sub': return [(T, ('Val', (-a) % p))]
    if op == 'complement_256': return [(T, ('Val', (2 ** 256 - 1 - a) % p))]
    if op in ('shift_l', 'shift_r'):
        # the executor concretises small shift counts, so k is handled per value by the caller (see shift_expect)
        raise NotImplementedError
    if op in ('bit_or', 'bit_and', 'bit_xor'): return [(T, ('Val', ctx.bitop(op[4:], a, b) % p))]
    if op == 'as_bool': return [(T, ('Bool', a != 0))]
    if op == 'not': return [(T, ('Val', one(a == 0)))]
    if op == 'bool_or': return [(T, ('Val', one(z3.Or(a != 0, b != 0))))]
    if op == 'bool_and': return [(T, ('Val', one(z3.And(a != 0, b != 0))))]
    if op == 'eq': return [(T, ('Val', one(a == b)))]
    if op == 'not_eq': return [(T, ('Val', one(a != b)))]
    if op == 'lesser': return [(T, ('Val', one(s(a) < s(b))))]
    if op == 'lesser_eq': return [(T, ('Val', one(s(a) <= s(b))))]
    if op == 'greater': return [(T, ('Val', one(s(a) > s(b))))]
    if op == 'greater_eq': return [(T, ('Val', one(s(a) >= s(b))))]
    raise KeyError(op)


def shift_cases(op, a, k, p):
    """Expectation for a shift by the (symbolic) count k, as a list of (condition, expectation);
    small counts are enumerated so that every case is linear in a."""
    half = p // 2; nb = bits(p); mask = 2 ** nb
    out = []
    def left(c, cond):   # a << c
        if c >= nb: out.append((cond, ('Val', z3.IntVal(0))))
        else: out.append((cond, ('Val', ((a * (2 ** c)) % mask) % p)))
    def right(c, cond):
        if c >= nb + 1: out.append((cond, ('Val', z3.IntVal(0))))
        else: out.append((cond, ('Val', a / (2 ** c))))
    direct = left if op == 'shift_l' else right
    flipped = right if op == 'shift_l' else left
    for c in range(0, nb + 2):
        if c <= half: direct(c, k == c)
        if p - c > half and c >= 1: flipped(c, k == p - c)
    # large counts: mathematically the result is 0 (left: all bits masked away; right: a < 2^nb)
    lo = nb + 2
    if lo <= half:
        big_direct = z3.And(k >= lo, k <= half)
        out.append((z3.And(big_direct, k < USIZE), ('Val', z3.IntVal(0))))
        out.append((z3.And(big_direct, k >= USIZE), ('ErrOrVal', z3.IntVal(0))))
    big_flip = z3.And(k > half, p - k >= lo)
    out.append((z3.And(big_flip, p - k < USIZE), ('Val', z3.IntVal(0))))
    out.append((z3.And(big_flip, p - k >= USIZE), ('ErrOrVal', z3.IntVal(0))))
    return out
