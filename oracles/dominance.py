"""Dominance by its path definition, over a rooted digraph with symbolic adjacency.

pred[i][j] (python bool | z3 Bool): there is an edge j -> i.  Node 0 is the entry.
All results are Boolean terms (or python bools when the adjacency is concrete).
"""
import z3
from mirsym.values import b_and, b_or, b_not, simp


def reach_avoiding(pred, n, avoid):
    """r[v]: v is reachable from 0 by a path that does not visit `avoid` (avoid=None: plain reachability)."""
    r = [False] * n
    if avoid != 0: r[0] = True
    for _ in range(n - 1):
        nr = list(r)
        for v in range(n):
            if v == avoid: continue
            nr[v] = b_or(r[v], *[b_and(pred[v][u], r[u]) for u in range(n) if u != avoid])
        r = nr
    return r


def dominance(pred, n):
    """dom[d][v]: d dominates v  <=>  v is not reachable from the entry once d is removed (or d == v)."""
    dom = [[None] * n for _ in range(n)]
    for d in range(n):
        r = reach_avoiding(pred, n, d)
        for v in range(n):
            dom[d][v] = True if d == v else b_not(r[v])
    return dom


def idom_rel(dom, n):
    """idom[d][v]: d is the immediate dominator of v: a strict dominator that every other strict dominator dominates."""
    rel = [[False] * n for _ in range(n)]
    for v in range(n):
        for d in range(n):
            if d == v: continue
            rel[d][v] = b_and(dom[d][v], *[b_or(b_not(dom[e][v]), dom[e][d]) for e in range(n) if e != v and e != d])
    return rel


def frontier(pred, dom, n):
    """df[i][j]: j in DF(i)  <=>  i dominates a predecessor of j and i does not strictly dominate j."""
    df = [[False] * n for _ in range(n)]
    for i in range(n):
        for j in range(n):
            dom_pred = b_or(*[b_and(pred[j][u], dom[i][u]) for u in range(n)])
            strictly = b_and(dom[i][j], i != j)
            df[i][j] = b_and(dom_pred, b_not(strictly))
    return df
