//! Native replay through the public API of program_structure.  Line protocol:
//!   degree infix <fn> <x> <y>                      -> rank of Degree::<fn>(x, y)
//!   degree prefix <fn> <x>                         -> rank
//!   degree dispatch_infix <Op> a0 a1 b0 b1         -> "<start> <end>" of the range attached to `a Op b` | "None"
//!   degree dispatch_prefix <Op> a0 a1              -> same for `Op a`
//!   degree selfcheck order                         -> "OK" | description
//!   value infix <Op> <curve> <F|B|N> <v> <F|B|N> <v>   -> "F <v>" | "B <bool>" | "None"
//!   value prefix <Op> <curve> <F|B|N> <v>
use num_bigint_dig::BigInt;
use program_structure::constants::{Curve, UsefulConstants};
use program_structure::ir::degree_meta::{Degree, DegreeEnvironment, DegreeMeta, DegreeRange};
use program_structure::ir::value_meta::{ValueEnvironment, ValueMeta, ValueReduction};
use program_structure::ir::*;
use program_structure::ssa::dominator_tree::DominatorTree;
use program_structure::ssa::traits::{DirectedGraphNode, Index, IndexSet};
use std::io::{self, BufRead, Write};
use std::panic;
use std::str::FromStr;

fn deg(k: &str) -> Degree {
    match k {
        "0" => Degree::Constant,
        "1" => Degree::Linear,
        "2" => Degree::Quadratic,
        _ => Degree::NonQuadratic,
    }
}
fn rank(d: Degree) -> u8 {
    match d {
        Degree::Constant => 0,
        Degree::Linear => 1,
        Degree::Quadratic => 2,
        Degree::NonQuadratic => 3,
    }
}

fn infix_op(name: &str) -> ExpressionInfixOpcode {
    use ExpressionInfixOpcode::*;
    match name {
        "Mul" => Mul, "Div" => Div, "Add" => Add, "Sub" => Sub, "Pow" => Pow, "IntDiv" => IntDiv, "Mod" => Mod,
        "ShiftL" => ShiftL, "ShiftR" => ShiftR, "LesserEq" => LesserEq, "GreaterEq" => GreaterEq, "Lesser" => Lesser,
        "Greater" => Greater, "Eq" => Eq, "NotEq" => NotEq, "BoolOr" => BoolOr, "BoolAnd" => BoolAnd, "BitOr" => BitOr,
        "BitAnd" => BitAnd, "BitXor" => BitXor,
        _ => panic!("unknown infix opcode {name}"),
    }
}
fn prefix_op(name: &str) -> ExpressionPrefixOpcode {
    use ExpressionPrefixOpcode::*;
    match name {
        "Sub" => Sub, "BoolNot" => BoolNot, "Complement" => Complement,
        _ => panic!("unknown prefix opcode {name}"),
    }
}

fn meta() -> Meta {
    Meta::new(&(0..0), &Some(0))
}
fn var(name: &str) -> Expression {
    Expression::Variable { meta: meta(), name: VariableName::from_string(name) }
}

fn degree_infix(f: &str, x: Degree, y: Degree) -> Degree {
    match f {
        "add" => x.add(&y), "infix_sub" => x.infix_sub(&y), "mul" => x.mul(&y), "div" => x.div(&y), "pow" => x.pow(&y),
        "int_div" => x.int_div(&y), "modulo" => x.modulo(&y), "shift_left" => x.shift_left(&y), "shift_right" => x.shift_right(&y),
        "lesser" => x.lesser(&y), "greater" => x.greater(&y), "lesser_eq" => x.lesser_eq(&y), "greater_eq" => x.greater_eq(&y),
        "equal" => x.equal(&y), "not_equal" => x.not_equal(&y), "bit_or" => x.bit_or(&y), "bit_and" => x.bit_and(&y),
        "bit_xor" => x.bit_xor(&y), "bool_or" => x.bool_or(&y), "bool_and" => x.bool_and(&y),
        _ => panic!("unknown degree function {f}"),
    }
}
fn degree_prefix(f: &str, x: Degree) -> Degree {
    match f {
        "prefix_sub" => x.prefix_sub(), "complement" => x.complement(), "bool_not" => x.bool_not(),
        _ => panic!("unknown degree function {f}"),
    }
}

fn show_range(r: Option<&DegreeRange>) -> String {
    match r {
        Some(r) => format!("{} {}", rank(r.start()), rank(r.end())),
        None => "None".to_string(),
    }
}

fn degree_cmd(w: &[&str]) -> String {
    match w[0] {
        "infix" => format!("{}", rank(degree_infix(w[1], deg(w[2]), deg(w[3])))),
        "prefix" => format!("{}", rank(degree_prefix(w[1], deg(w[2])))),
        "dispatch_infix" => {
            let mut env = DegreeEnvironment::new();
            env.set_degree(&VariableName::from_string("a"), &DegreeRange::new(deg(w[2]), deg(w[3])));
            env.set_degree(&VariableName::from_string("b"), &DegreeRange::new(deg(w[4]), deg(w[5])));
            let mut e = Expression::InfixOp { meta: meta(), lhe: Box::new(var("a")), infix_op: infix_op(w[1]), rhe: Box::new(var("b")) };
            while e.propagate_degrees(&env) {}
            show_range(e.degree())
        }
        "dispatch_prefix" => {
            let mut env = DegreeEnvironment::new();
            env.set_degree(&VariableName::from_string("a"), &DegreeRange::new(deg(w[2]), deg(w[3])));
            let mut e = Expression::PrefixOp { meta: meta(), prefix_op: prefix_op(w[1]), rhe: Box::new(var("a")) };
            while e.propagate_degrees(&env) {}
            show_range(e.degree())
        }
        "rule" => degree_rule_cmd(&w[1..]),
        "selfcheck" => {
            let all = [Degree::Constant, Degree::Linear, Degree::Quadratic, Degree::NonQuadratic];
            for x in all {
                for y in all {
                    if x.cmp(&y) != rank(x).cmp(&rank(y)) || x.partial_cmp(&y) != Some(x.cmp(&y)) {
                        return format!("cmp({},{}) is not the rank order", rank(x), rank(y));
                    }
                    if rank(x) <= rank(y) {
                        let r = DegreeRange::new(x, y);
                        if r.is_constant() != (rank(y) == 0) || r.is_linear() != (rank(y) <= 1) || r.is_quadratic() != (rank(y) <= 2) {
                            return format!("predicates of [{},{}] wrong", rank(x), rank(y));
                        }
                        for z in all {
                            if r.contains(z) != (rank(x) <= rank(z) && rank(z) <= rank(y)) {
                                return format!("[{},{}].contains({}) wrong", rank(x), rank(y), rank(z));
                            }
                            for u in all {
                                if rank(z) <= rank(u) {
                                    let j = r.inf(&DegreeRange::new(z, u));
                                    if rank(j.start()) > rank(x).min(rank(z)) || rank(j.end()) < rank(y).max(rank(u)) {
                                        return format!("inf([{},{}],[{},{}]) does not contain both", rank(x), rank(y), rank(z), rank(u));
                                    }
                                }
                            }
                        }
                    }
                }
            }
            "OK".to_string()
        }
        _ => "UNKNOWN".to_string(),
    }
}

fn operand(env: &mut ValueEnvironment, name: &str, kind: &str, v: &str) -> Expression {
    match kind {
        "F" => {
            env.add_variable(&VariableName::from_string(name), &ValueReduction::FieldElement { value: BigInt::parse_bytes(v.as_bytes(), 10).unwrap() });
        }
        "B" => {
            env.add_variable(&VariableName::from_string(name), &ValueReduction::Boolean { value: v == "true" });
        }
        _ => {}
    }
    var(name)
}
fn show_value(v: Option<&ValueReduction>) -> String {
    match v {
        Some(ValueReduction::FieldElement { value }) => format!("F {}", value),
        Some(ValueReduction::Boolean { value }) => format!("B {}", value),
        None => "None".to_string(),
    }
}
fn value_cmd(w: &[&str]) -> String {
    let curve = Curve::from_str(w[2]).unwrap();
    let mut env = ValueEnvironment::new(&UsefulConstants::new(&curve));
    match w[0] {
        "infix" => {
            let a = operand(&mut env, "a", w[3], w[4]);
            let b = operand(&mut env, "b", w[5], w[6]);
            let mut e = Expression::InfixOp { meta: meta(), lhe: Box::new(a), infix_op: infix_op(w[1]), rhe: Box::new(b) };
            while e.propagate_values(&mut env) {}
            show_value(e.value())
        }
        "prefix" => {
            let a = operand(&mut env, "a", w[3], w[4]);
            let mut e = Expression::PrefixOp { meta: meta(), prefix_op: prefix_op(w[1]), rhe: Box::new(a) };
            while e.propagate_values(&mut env) {}
            show_value(e.value())
        }
        _ => "UNKNOWN".to_string(),
    }
}

fn build_node(node: &str, op: usize) -> Expression {
    use Expression::*;
    let infix = ["Mul", "Div", "Add", "Sub", "Pow", "IntDiv", "Mod", "ShiftL", "ShiftR", "LesserEq", "GreaterEq", "Lesser", "Greater", "Eq", "NotEq", "BoolOr", "BoolAnd", "BitOr", "BitAnd", "BitXor"];
    let prefix = ["Sub", "BoolNot", "Complement"];
    let n = |s: &str| VariableName::from_string(s);
    match node {
        "number" => Number(meta(), BigInt::from(5)),
        "variable" => var("v0"),
        "infix" => InfixOp { meta: meta(), lhe: Box::new(var("v0")), infix_op: infix_op(infix[op]), rhe: Box::new(var("v1")) },
        "prefix" => PrefixOp { meta: meta(), prefix_op: prefix_op(prefix[op]), rhe: Box::new(var("v0")) },
        "switch" => SwitchOp { meta: meta(), cond: Box::new(var("v0")), if_true: Box::new(var("v1")), if_false: Box::new(var("v2")) },
        "call" => Call { meta: meta(), name: "f".to_string(), args: vec![var("v0"), var("v1")] },
        "inline_array" => InlineArray { meta: meta(), values: vec![var("v0"), var("v1")] },
        "access" => Access { meta: meta(), var: n("v0"), access: vec![AccessType::ArrayAccess(Box::new(var("v1")))] },
        "update" => Update { meta: meta(), var: n("v0"), access: vec![AccessType::ArrayAccess(Box::new(var("v1")))], rhe: Box::new(var("v2")) },
        "phi" => Phi { meta: meta(), args: vec![n("v0"), n("v1"), n("v2")] },
        _ => panic!("unknown node {node}"),
    }
}

/// degree rule <node> <op> <K|U>:<lo>:<hi>:<L|S> x3   -> "<start> <end>" | "None"
fn degree_rule_cmd(w: &[&str]) -> String {
    let node = w[0];
    let op: usize = w[1].parse().unwrap();
    let mut env = DegreeEnvironment::new();
    for (i, spec) in w[2..].iter().enumerate() {
        let f: Vec<&str> = spec.split(':').collect();
        let name = VariableName::from_string(format!("v{i}"));
        if f[0] == "K" {
            env.set_degree(&name, &DegreeRange::new(deg(f[1]), deg(f[2])));
        }
        let ty = if f[3] == "L" { VariableType::Local } else { VariableType::Signal(SignalType::Intermediate, Vec::new()) };
        env.set_type(&name, &ty);
    }
    match node {
        "subst" => {
            let w1 = VariableName::from_string("w").with_version(1);
            env.set_type(&w1, &VariableType::Local);
            let rhe = Expression::InfixOp { meta: meta(), lhe: Box::new(var("v0")), infix_op: ExpressionInfixOpcode::Mul, rhe: Box::new(var("v1")) };
            let mut st = Statement::Substitution { meta: meta(), var: w1.clone(), op: AssignOp::AssignLocalOrComponent, rhe };
            while st.propagate_degrees(&mut env) {}
            show_range(env.degree(&w1))
        }
        "decl" => {
            let s1 = VariableName::from_string("s");
            let mut st = Statement::Declaration {
                meta: meta(),
                names: program_structure::nonempty_vec::NonEmptyVec::new(s1.clone()),
                var_type: VariableType::Signal(SignalType::Input, Vec::new()),
                dimensions: Vec::new(),
            };
            while st.propagate_degrees(&mut env) {}
            show_range(env.degree(&s1))
        }
        _ => {
            let mut e = build_node(node, op);
            while e.propagate_degrees(&env) {}
            show_range(e.degree())
        }
    }
}

/// rule value <node> <N:0|F:v|B:b> x3  -> "F v" | "B b" | "None"  (statements: "Pub ...")
fn value_rule_cmd(w: &[&str]) -> String {
    let node = w[0];
    let mut env = ValueEnvironment::new(&UsefulConstants::new(&Curve::Bn254));
    for (i, spec) in w[1..].iter().enumerate() {
        let f: Vec<&str> = spec.split(':').collect();
        let name = VariableName::from_string(format!("v{i}"));
        match f[0] {
            "F" => { env.add_variable(&name, &ValueReduction::FieldElement { value: BigInt::parse_bytes(f[1].as_bytes(), 10).unwrap() }); }
            "B" => { env.add_variable(&name, &ValueReduction::Boolean { value: f[1] == "true" }); }
            _ => {}
        }
    }
    let publish = |var: VariableName, rhe: Expression, op: AssignOp, env: &mut ValueEnvironment| -> String {
        let mut st = Statement::Substitution { meta: meta(), var: var.clone(), op, rhe };
        while st.propagate_values(env) {}
        format!("Pub {}", show_value(env.get_variable(&var)))
    };
    match node {
        "subst" => publish(VariableName::from_string("w").with_version(1), var("v0"), AssignOp::AssignLocalOrComponent, &mut env),
        "subst_signal" => publish(VariableName::from_string("sig"), var("v0"), AssignOp::AssignSignal, &mut env),
        "subst_update" => {
            let rhe = Expression::Update {
                meta: meta(),
                var: VariableName::from_string("w").with_version(0),
                access: vec![AccessType::ArrayAccess(Box::new(Expression::Number(meta(), BigInt::from(0))))],
                rhe: Box::new(var("v0")),
            };
            publish(VariableName::from_string("w").with_version(1), rhe, AssignOp::AssignLocalOrComponent, &mut env)
        }
        "number" => {
            let mut e = Expression::Number(meta(), BigInt::from(7));
            while e.propagate_values(&mut env) {}
            show_value(e.value())
        }
        "infix" | "prefix" => {
            let mut e = if node == "infix" { build_node("infix", 3) } else { build_node("prefix", 0) };
            while e.propagate_values(&mut env) {}
            show_value(e.value())
        }
        _ => {
            let mut e = build_node(node, 0);
            while e.propagate_values(&mut env) {}
            show_value(e.value())
        }
    }
}

struct Node {
    index: Index,
    preds: IndexSet,
    succs: IndexSet,
}
impl DirectedGraphNode for Node {
    fn index(&self) -> Index {
        self.index
    }
    fn predecessors(&self) -> &IndexSet {
        &self.preds
    }
    fn successors(&self) -> &IndexSet {
        &self.succs
    }
}
fn sorted(s: IndexSet) -> Vec<usize> {
    let mut v: Vec<usize> = s.into_iter().collect();
    v.sort();
    v
}
/// domtree <preds of node 0> <preds of node 1> ...   (comma separated, '-' for none) -> JSON
fn domtree_cmd(w: &[&str]) -> String {
    let n = w.len();
    let mut nodes: Vec<Node> = (0..n).map(|i| Node { index: i, preds: IndexSet::new(), succs: IndexSet::new() }).collect();
    for (i, spec) in w.iter().enumerate() {
        if *spec == "-" {
            continue;
        }
        for p in spec.split(',') {
            let j: usize = p.parse().unwrap();
            nodes[i].preds.insert(j);
            nodes[j].succs.insert(i);
        }
    }
    let t = DominatorTree::new(&nodes);
    let list = |f: &dyn Fn(usize) -> Vec<usize>| -> String {
        let parts: Vec<String> = (0..n).map(|i| format!("{:?}", f(i))).collect();
        format!("[{}]", parts.join(", "))
    };
    let idoms: Vec<String> = (0..n).map(|i| match t.get_immediate_dominator(i) { Some(d) => d.to_string(), None => "null".to_string() }).collect();
    format!(
        "{{\"dom\": {}, \"idom\": [{}], \"children\": {}, \"frontier\": {}}}",
        list(&|i| sorted(t.get_dominators(i))),
        idoms.join(", "),
        list(&|i| sorted(t.get_dominator_successors(i))),
        list(&|i| sorted(t.get_dominance_frontier(i)))
    )
}

fn main() {
    panic::set_hook(Box::new(|_| {}));
    let stdin = io::stdin();
    let out = io::stdout();
    for line in stdin.lock().lines() {
        let line = line.unwrap();
        let w: Vec<&str> = line.split_whitespace().collect();
        if w.is_empty() {
            continue;
        }
        let r = panic::catch_unwind(|| match w[0] {
            "degree" => degree_cmd(&w[1..]),
            "value" => value_cmd(&w[1..]),
            "domtree" => domtree_cmd(&w[1..]),
            "rule" if w.len() > 2 && w[1] == "value" => value_rule_cmd(&w[2..]),
            _ => "UNKNOWN".to_string(),
        });
        let s = match r {
            Ok(s) => s,
            Err(e) => {
                let msg = e.downcast_ref::<String>().cloned().or_else(|| e.downcast_ref::<&str>().map(|s| s.to_string())).unwrap_or_default();
                format!("PANIC {}", msg)
            }
        };
        let mut o = out.lock();
        writeln!(o, "{}", s).unwrap();
        o.flush().unwrap();
    }
}
