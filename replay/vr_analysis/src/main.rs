//! Native replay for analysis passes: parses ONE definition (function or template), lifts it to an SSA CFG
//! for the given curve and runs every analysis pass through the public `get_analysis_passes()`.
//!   analyze <curve> <hex of utf-8 source>
//!     -> "OK" followed by one token per report: <id>:<category>:<start>-<end>:<n secondary>[:sec start-end ...]  (space separated)
//!        or "LIFTERR <msg>" / "PARSEERR" / "PANIC <msg>"
use parser::parse_definition;
use program_analysis::analysis_context::{AnalysisContext, AnalysisError};
use program_analysis::get_analysis_passes;
use program_structure::cfg::{Cfg, IntoCfg};
use program_structure::constants::Curve;
use program_structure::file_definition::{FileID, FileLocation};
use program_structure::report::ReportCollection;
use std::io::{self, BufRead, Write};
use std::panic;
use std::str::FromStr;

use program_analysis::analysis_runner::AnalysisRunner;
use program_structure::file_definition::FileLibrary;
use program_structure::report::Report;
use program_structure::writers::{LogWriter, ReportWriter};
use std::fmt::Display;
use std::path::PathBuf;

#[derive(Default)]
struct Collect {
    reports: Vec<Report>,
}
impl LogWriter for Collect {
    fn write_messages<D: Display>(&mut self, _: &[D]) {}
}
impl ReportWriter for Collect {
    fn write_reports(&mut self, reports: &[Report], _: &FileLibrary) -> usize {
        self.reports.extend(reports.iter().cloned());
        reports.len()
    }
    fn reports_written(&self) -> usize {
        self.reports.len()
    }
}

fn token(r: &Report) -> String {
    let (s, e) = r.primary().first().map(|l| (l.range.start as i64, l.range.end as i64)).unwrap_or((-1, -1));
    let mut tok = format!("{}:{}:{}-{}:{}", r.id(), r.category(), s, e, r.secondary().len());
    for l in r.secondary() {
        tok.push_str(&format!(":{}-{}", l.range.start, l.range.end));
    }
    tok
}

/// analyzefile <curve> <path> [<path> ...]: the whole real pipeline (parse_files, desugaring, lifting, SSA, all passes)
fn analyze_file(curve: &str, paths: &[&str]) -> String {
    let curve = match Curve::from_str(curve) {
        Ok(c) => c,
        Err(_) => return "BADCURVE".to_string(),
    };
    let files: Vec<PathBuf> = paths.iter().map(PathBuf::from).collect();
    let (mut runner, reports) = AnalysisRunner::new(curve).with_files(&files);
    let mut w = Collect::default();
    w.write_reports(&reports, runner.file_library());
    runner.analyze_functions(&mut w, true);
    runner.analyze_templates(&mut w, true);
    let mut out = vec!["OK".to_string()];
    for r in w.reports.iter() {
        out.push(token(r));
    }
    out.join(" ")
}

/// cfgdump <hex source of one definition>  -> JSON list of blocks (before SSA)
fn cfg_dump(src: &str) -> String {
    use program_structure::ir::Statement;
    let def = match parse_definition(src) {
        Some(d) => d,
        None => return "PARSEERR".to_string(),
    };
    let mut reports = ReportCollection::new();
    let cfg = match def.into_cfg(&Curve::Bn254, &mut reports) {
        Ok(cfg) => cfg,
        Err(e) => return format!("LIFTERR {}", e),
    };
    let mut blocks = Vec::new();
    for b in cfg.iter() {
        let mut preds: Vec<usize> = b.predecessors().iter().cloned().collect();
        preds.sort();
        let mut succs: Vec<usize> = b.successors().iter().cloned().collect();
        succs.sort();
        let mut stmts = Vec::new();
        for s in b.iter() {
            let start = s.meta().start();
            match s {
                Statement::IfThenElse { true_index, false_index, .. } => {
                    let f = match false_index { Some(f) => f.to_string(), None => "null".to_string() };
                    stmts.push(format!("[\"branch\", {}, {}, {}]", start, true_index, f));
                }
                Statement::Return { .. } => stmts.push(format!("[\"leaf\", {}, true]", start)),
                Statement::Declaration { .. } => {}
                _ => stmts.push(format!("[\"leaf\", {}, false]", start)),
            }
        }
        blocks.push(format!(
            "{{\"index\": {}, \"depth\": {}, \"preds\": {:?}, \"succs\": {:?}, \"stmts\": [{}]}}",
            b.index(), b.loop_depth(), preds, succs, stmts.join(", ")
        ));
    }
    format!("[{}]", blocks.join(", "))
}

fn vkey(v: &program_structure::ir::VariableName) -> String {
    let base = match v.suffix() {
        Some(sf) => format!("{}.{}", v.name(), sf),
        None => v.name().clone(),
    };
    match v.version() {
        Some(n) => format!("[\"{}\", {}]", base, n),
        None => format!("[\"{}\", null]", base),
    }
}

fn expr_reads(e: &program_structure::ir::Expression, out: &mut Vec<String>) {
    use program_structure::ir::{AccessType, Expression::*};
    match e {
        Variable { name, .. } => out.push(vkey(name)),
        Number(..) => {}
        InfixOp { lhe, rhe, .. } => {
            expr_reads(lhe, out);
            expr_reads(rhe, out);
        }
        PrefixOp { rhe, .. } => expr_reads(rhe, out),
        SwitchOp { cond, if_true, if_false, .. } => {
            expr_reads(cond, out);
            expr_reads(if_true, out);
            expr_reads(if_false, out);
        }
        Call { args, .. } => args.iter().for_each(|a| expr_reads(a, out)),
        InlineArray { values, .. } => values.iter().for_each(|a| expr_reads(a, out)),
        Access { var, access, .. } => {
            for a in access {
                if let AccessType::ArrayAccess(i) = a {
                    expr_reads(i, out);
                }
            }
            out.push(vkey(var));
        }
        Update { var, access, rhe, .. } => {
            expr_reads(rhe, out);
            for a in access {
                if let AccessType::ArrayAccess(i) = a {
                    expr_reads(i, out);
                }
            }
            out.push(vkey(var));
        }
        Phi { args, .. } => args.iter().for_each(|a| out.push(vkey(a))),
    }
}

fn val_nodes(e: &program_structure::ir::Expression, stmt: usize, out: &mut Vec<String>) {
    use program_structure::ir::value_meta::{ValueMeta, ValueReduction};
    use program_structure::ir::{AccessType, Expression::*};
    let kind = match e {
        Variable { .. } => "Variable",
        Number(..) => "Number",
        InfixOp { .. } => "InfixOp",
        PrefixOp { .. } => "PrefixOp",
        SwitchOp { .. } => "SwitchOp",
        Call { .. } => "Call",
        InlineArray { .. } => "InlineArray",
        Access { .. } => "Access",
        Update { .. } => "Update",
        Phi { .. } => "Phi",
    };
    match e.value() {
        Some(ValueReduction::FieldElement { value: v }) => out.push(format!("[{}, \"{}\", \"{}\"]", stmt, kind, v)),
        Some(ValueReduction::Boolean { value: b }) => out.push(format!("[{}, \"{}\", {}]", stmt, kind, b)),
        None => {}
    }
    match e {
        InfixOp { lhe, rhe, .. } => {
            val_nodes(lhe, stmt, out);
            val_nodes(rhe, stmt, out);
        }
        PrefixOp { rhe, .. } => val_nodes(rhe, stmt, out),
        SwitchOp { cond, if_true, if_false, .. } => {
            val_nodes(cond, stmt, out);
            val_nodes(if_true, stmt, out);
            val_nodes(if_false, stmt, out);
        }
        Call { args, .. } => args.iter().for_each(|a| val_nodes(a, stmt, out)),
        InlineArray { values, .. } => values.iter().for_each(|a| val_nodes(a, stmt, out)),
        Access { access, .. } => {
            for a in access {
                if let AccessType::ArrayAccess(i) = a {
                    val_nodes(i, stmt, out);
                }
            }
        }
        Update { access, rhe, .. } => {
            for a in access {
                if let AccessType::ArrayAccess(i) = a {
                    val_nodes(i, stmt, out);
                }
            }
            val_nodes(rhe, stmt, out);
        }
        _ => {}
    }
}

fn deg_nodes(e: &program_structure::ir::Expression, stmt: usize, out: &mut Vec<String>) {
    use program_structure::ir::degree_meta::DegreeMeta;
    use program_structure::ir::{AccessType, Expression::*};
    let kind = match e {
        Variable { .. } => "Variable",
        Number(..) => "Number",
        InfixOp { .. } => "InfixOp",
        PrefixOp { .. } => "PrefixOp",
        SwitchOp { .. } => "SwitchOp",
        Call { .. } => "Call",
        InlineArray { .. } => "InlineArray",
        Access { .. } => "Access",
        Update { .. } => "Update",
        Phi { .. } => "Phi",
    };
    if let Some(range) = e.degree() {
        out.push(format!("[{}, \"{}\", \"{:?}\"]", stmt, kind, range.end()));
    }
    match e {
        InfixOp { lhe, rhe, .. } => {
            deg_nodes(lhe, stmt, out);
            deg_nodes(rhe, stmt, out);
        }
        PrefixOp { rhe, .. } => deg_nodes(rhe, stmt, out),
        SwitchOp { cond, if_true, if_false, .. } => {
            deg_nodes(cond, stmt, out);
            deg_nodes(if_true, stmt, out);
            deg_nodes(if_false, stmt, out);
        }
        Call { args, .. } => args.iter().for_each(|a| deg_nodes(a, stmt, out)),
        InlineArray { values, .. } => values.iter().for_each(|a| deg_nodes(a, stmt, out)),
        Access { access, .. } => {
            for a in access {
                if let AccessType::ArrayAccess(i) = a {
                    deg_nodes(i, stmt, out);
                }
            }
        }
        Update { access, rhe, .. } => {
            for a in access {
                if let AccessType::ArrayAccess(i) = a {
                    deg_nodes(i, stmt, out);
                }
            }
            deg_nodes(rhe, stmt, out);
        }
        _ => {}
    }
}

/// degdump <hex source of one definition> -> JSON list of [statement offset, node kind, upper degree bound]
fn deg_dump(src: &str) -> String {
    use program_structure::ir::Statement;
    let def = match parse_definition(src) {
        Some(d) => d,
        None => return "PARSEERR".to_string(),
    };
    let mut reports = ReportCollection::new();
    let cfg = match def.into_cfg(&Curve::Bn254, &mut reports) {
        Ok(cfg) => cfg,
        Err(e) => return format!("LIFTERR {}", e),
    };
    let cfg = match cfg.into_ssa() {
        Ok(cfg) => cfg,
        Err(_) => return "SSAERR".to_string(),
    };
    let mut out = Vec::new();
    for b in cfg.iter() {
        for s in b.iter() {
            let id = s.meta().start();
            match s {
                Statement::Substitution { rhe, .. } => deg_nodes(rhe, id, &mut out),
                Statement::IfThenElse { cond, .. } => deg_nodes(cond, id, &mut out),
                Statement::Return { value, .. } => deg_nodes(value, id, &mut out),
                Statement::Assert { arg, .. } => deg_nodes(arg, id, &mut out),
                _ => {}
            }
        }
    }
    format!("[{}]", out.join(", "))
}

/// valdump <hex source of one definition> -> JSON list of [statement offset, node kind, value] for every expression node the real
/// pipeline attached a constant to (after SSA and value propagation)
fn val_dump(src: &str) -> String {
    use program_structure::ir::Statement;
    let def = match parse_definition(src) {
        Some(d) => d,
        None => return "PARSEERR".to_string(),
    };
    let mut reports = ReportCollection::new();
    let cfg = match def.into_cfg(&Curve::Bn254, &mut reports) {
        Ok(cfg) => cfg,
        Err(e) => return format!("LIFTERR {}", e),
    };
    let cfg = match cfg.into_ssa() {
        Ok(cfg) => cfg,
        Err(_) => return "SSAERR".to_string(),
    };
    let mut out = Vec::new();
    for b in cfg.iter() {
        for s in b.iter() {
            let id = s.meta().start();
            match s {
                Statement::Substitution { rhe, .. } => val_nodes(rhe, id, &mut out),
                Statement::IfThenElse { cond, .. } => val_nodes(cond, id, &mut out),
                Statement::Return { value, .. } => val_nodes(value, id, &mut out),
                Statement::Assert { arg, .. } => val_nodes(arg, id, &mut out),
                Statement::ConstraintEquality { lhe, rhe, .. } => {
                    val_nodes(lhe, id, &mut out);
                    val_nodes(rhe, id, &mut out);
                }
                _ => {}
            }
        }
    }
    format!("[{}]", out.join(", "))
}

/// ssadump <hex source of one definition> -> JSON list of blocks after SSA conversion (the view audited by specs/C14ssa.py)
fn ssa_dump(src: &str) -> String {
    use program_structure::ir::{Expression, Statement};
    let def = match parse_definition(src) {
        Some(d) => d,
        None => return "PARSEERR".to_string(),
    };
    let mut reports = ReportCollection::new();
    let cfg = match def.into_cfg(&Curve::Bn254, &mut reports) {
        Ok(cfg) => cfg,
        Err(e) => return format!("LIFTERR {}", e),
    };
    let cfg = match cfg.into_ssa() {
        Ok(cfg) => cfg,
        Err(_) => return "SSAERR".to_string(),
    };
    let mut blocks = Vec::new();
    for b in cfg.iter() {
        let mut preds: Vec<usize> = b.predecessors().iter().cloned().collect();
        preds.sort();
        let mut succs: Vec<usize> = b.successors().iter().cloned().collect();
        succs.sort();
        let mut stmts = Vec::new();
        for s in b.iter() {
            let id = s.meta().start();
            let mut reads = Vec::new();
            match s {
                Statement::Declaration { names, .. } => {
                    let ns: Vec<String> = names.iter().map(vkey).collect();
                    stmts.push(format!("{{\"k\": \"decl\", \"id\": {}, \"names\": [{}], \"reads\": [], \"def\": null}}", id, ns.join(", ")));
                }
                Statement::Substitution { var, rhe, .. } => match rhe {
                    Expression::Phi { .. } => {
                        expr_reads(rhe, &mut reads);
                        stmts.push(format!("{{\"k\": \"phi\", \"id\": {}, \"def\": {}, \"args\": [{}], \"reads\": []}}", id, vkey(var), reads.join(", ")));
                    }
                    _ => {
                        expr_reads(rhe, &mut reads);
                        let upd = match rhe {
                            Expression::Update { var, .. } => vkey(var),
                            _ => "null".to_string(),
                        };
                        stmts.push(format!("{{\"k\": \"subst\", \"id\": {}, \"def\": {}, \"reads\": [{}], \"updvar\": {}}}", id, vkey(var), reads.join(", "), upd));
                    }
                },
                Statement::IfThenElse { cond, true_index, false_index, .. } => {
                    expr_reads(cond, &mut reads);
                    let f = match false_index {
                        Some(f) => f.to_string(),
                        None => "null".to_string(),
                    };
                    stmts.push(format!("{{\"k\": \"branch\", \"id\": {}, \"def\": null, \"reads\": [{}], \"t\": {}, \"f\": {}}}", id, reads.join(", "), true_index, f));
                }
                Statement::Return { value, .. } => {
                    expr_reads(value, &mut reads);
                    stmts.push(format!("{{\"k\": \"use\", \"id\": {}, \"def\": null, \"reads\": [{}]}}", id, reads.join(", ")));
                }
                Statement::Assert { arg, .. } => {
                    expr_reads(arg, &mut reads);
                    stmts.push(format!("{{\"k\": \"use\", \"id\": {}, \"def\": null, \"reads\": [{}]}}", id, reads.join(", ")));
                }
                _ => stmts.push(format!("{{\"k\": \"other\", \"id\": {}, \"def\": null, \"reads\": []}}", id)),
            }
        }
        blocks.push(format!("{{\"index\": {}, \"preds\": {:?}, \"succs\": {:?}, \"stmts\": [{}]}}", b.index(), preds, succs, stmts.join(", ")));
    }
    format!("[{}]", blocks.join(", "))
}

struct NoContext;
impl AnalysisContext for NoContext {
    fn is_function(&self, _: &str) -> bool {
        false
    }
    fn is_template(&self, _: &str) -> bool {
        false
    }
    fn function(&mut self, name: &str) -> Result<&Cfg, AnalysisError> {
        Err(AnalysisError::UnknownFunction { name: name.to_string() })
    }
    fn template(&mut self, name: &str) -> Result<&Cfg, AnalysisError> {
        Err(AnalysisError::UnknownTemplate { name: name.to_string() })
    }
    fn underlying_str(&self, file_id: &FileID, _: &FileLocation) -> Result<String, AnalysisError> {
        Err(AnalysisError::UnknownFile { file_id: *file_id })
    }
}

fn unhex(s: &str) -> Vec<u8> {
    (0..s.len() / 2).map(|i| u8::from_str_radix(&s[2 * i..2 * i + 2], 16).unwrap()).collect()
}

fn analyze(curve: &str, src: &str) -> String {
    let curve = match Curve::from_str(curve) {
        Ok(c) => c,
        Err(_) => return "BADCURVE".to_string(),
    };
    let def = match parse_definition(src) {
        Some(d) => d,
        None => return "PARSEERR".to_string(),
    };
    let mut reports = ReportCollection::new();
    let cfg = match def.into_cfg(&curve, &mut reports) {
        Ok(cfg) => cfg,
        Err(e) => return format!("LIFTERR {}", e),
    };
    let cfg = match cfg.into_ssa() {
        Ok(cfg) => cfg,
        Err(e) => return format!("LIFTERR {:?}", e.into_report().message()),
    };
    let mut ctx = NoContext;
    for pass in get_analysis_passes() {
        reports.append(&mut pass(&mut ctx, &cfg));
    }
    let mut out = vec!["OK".to_string()];
    for r in reports.iter() {
        let (s, e) = r.primary().first().map(|l| (l.range.start as i64, l.range.end as i64)).unwrap_or((-1, -1));
        let mut tok = format!("{}:{}:{}-{}:{}", r.id(), r.category(), s, e, r.secondary().len());
        for l in r.secondary() {
            tok.push_str(&format!(":{}-{}", l.range.start, l.range.end));
        }
        out.push(tok);
    }
    out.join(" ")
}

fn main() {
    panic::set_hook(Box::new(|_| {}));
    let stdin = io::stdin();
    let out = io::stdout();
    for line in stdin.lock().lines() {
        let line = line.unwrap();
        let w: Vec<&str> = line.split_whitespace().collect();
        if w.is_empty() {
            continue;
        }
        let r = panic::catch_unwind(|| match w[0] {
            "analyzefile" => analyze_file(w[1], &w[2..]),
            "degdump" => match String::from_utf8(unhex(w.get(1).unwrap_or(&""))) {
                Ok(s) => deg_dump(&s),
                Err(_) => "BADUTF8".to_string(),
            },
            "valdump" => match String::from_utf8(unhex(w.get(1).unwrap_or(&""))) {
                Ok(s) => val_dump(&s),
                Err(_) => "BADUTF8".to_string(),
            },
            "ssadump" => match String::from_utf8(unhex(w.get(1).unwrap_or(&""))) {
                Ok(s) => ssa_dump(&s),
                Err(_) => "BADUTF8".to_string(),
            },
            "cfgdump" => match String::from_utf8(unhex(w.get(1).unwrap_or(&""))) {
                Ok(s) => cfg_dump(&s),
                Err(_) => "BADUTF8".to_string(),
            },
            "analyze" => match String::from_utf8(unhex(w.get(2).unwrap_or(&""))) {
                Ok(s) => analyze(w[1], &s),
                Err(_) => "BADUTF8".to_string(),
            },
            _ => "UNKNOWN".to_string(),
        });
        let s = match r {
            Ok(s) => s,
            Err(e) => {
                let msg = e.downcast_ref::<String>().cloned().or_else(|| e.downcast_ref::<&str>().map(|s| s.to_string())).unwrap_or_default();
                format!("PANIC {}", msg)
            }
        };
        let mut o = out.lock();
        writeln!(o, "{}", s).unwrap();
        o.flush().unwrap();
    }
}
