//! Native replay of circom_algebra::modular_arithmetic and probes of the num-bigint-dig
//! functions the engine models.  Line protocol on stdin:
//!   op <name> <a> <b> <p>          -> "Ok <v>" | "Err DivisionByZero" | "Err BitOverFlowInShift" | "Val <v>" | "Bool <v>" | "PANIC <msg>"
//!   lib <name> <args...>           -> library probe (conformance of the engine's models)
use circom_algebra::modular_arithmetic as ma;
use num_bigint_dig::{BigInt, ModInverse, Sign};
use num_traits::ToPrimitive;
use std::io::{self, BufRead, Write};
use std::panic;

fn big(s: &str) -> BigInt {
    BigInt::parse_bytes(s.as_bytes(), 10).expect("decimal")
}

fn res(r: Result<BigInt, ma::ArithmeticError>) -> String {
    match r {
        Ok(v) => format!("Ok {}", v),
        Err(ma::ArithmeticError::DivisionByZero) => "Err DivisionByZero".to_string(),
        Err(ma::ArithmeticError::BitOverFlowInShift) => "Err BitOverFlowInShift".to_string(),
    }
}

fn op(name: &str, a: &BigInt, b: &BigInt, p: &BigInt) -> String {
    match name {
        "add" => format!("Val {}", ma::add(a, b, p)),
        "sub" => format!("Val {}", ma::sub(a, b, p)),
        "mul" => format!("Val {}", ma::mul(a, b, p)),
        "div" => res(ma::div(a, b, p)),
        "idiv" => res(ma::idiv(a, b, p)),
        "mod_op" => res(ma::mod_op(a, b, p)),
        "pow" => format!("Val {}", ma::pow(a, b, p)),
        "prefix_sub" => format!("Val {}", ma::prefix_sub(a, p)),
        "complement_256" => format!("Val {}", ma::complement_256(a, p)),
        "shift_l" => res(ma::shift_l(a, b, p)),
        "shift_r" => res(ma::shift_r(a, b, p)),
        "bit_or" => format!("Val {}", ma::bit_or(a, b, p)),
        "bit_and" => format!("Val {}", ma::bit_and(a, b, p)),
        "bit_xor" => format!("Val {}", ma::bit_xor(a, b, p)),
        "as_bool" => format!("Bool {}", ma::as_bool(a, p)),
        "not" => format!("Val {}", ma::not(a, p)),
        "bool_or" => format!("Val {}", ma::bool_or(a, b, p)),
        "bool_and" => format!("Val {}", ma::bool_and(a, b, p)),
        "eq" => format!("Val {}", ma::eq(a, b, p)),
        "lesser" => format!("Val {}", ma::lesser(a, b, p)),
        "not_eq" => format!("Val {}", ma::not_eq(a, b, p)),
        "lesser_eq" => format!("Val {}", ma::lesser_eq(a, b, p)),
        "greater" => format!("Val {}", ma::greater(a, b, p)),
        "greater_eq" => format!("Val {}", ma::greater_eq(a, b, p)),
        _ => format!("UNKNOWN {}", name),
    }
}

fn sign(s: Sign) -> &'static str {
    match s {
        Sign::Minus => "Minus",
        Sign::NoSign => "NoSign",
        Sign::Plus => "Plus",
    }
}

fn lib(name: &str, args: &[&str]) -> String {
    let a = || big(args[0]);
    let b = || big(args[1]);
    match name {
        "add" => format!("{}", a() + b()),
        "sub" => format!("{}", a() - b()),
        "mul" => format!("{}", a() * b()),
        "div" => format!("{}", a() / b()),
        "rem" => format!("{}", a() % b()),
        "bitand" => format!("{}", a() & b()),
        "bitor" => format!("{}", a() | b()),
        "bitxor" => format!("{}", a() ^ b()),
        "lt" => format!("{}", a() < b()),
        "le" => format!("{}", a() <= b()),
        "eq" => format!("{}", a() == b()),
        "to_usize" => format!("{:?}", a().to_usize()),
        "pow" => format!("{}", num_traits::pow(a(), args[1].parse::<usize>().unwrap())),
        "modpow" => format!("{}", a().modpow(&b(), &big(args[2]))),
        "mod_inverse" => format!("{:?}", (&a()).mod_inverse(&b()).map(|x| x.to_string())),
        "to_radix_le" => {
            let (s, d) = a().to_radix_le(2);
            format!("{} {:?}", sign(s), d)
        }
        "from_radix_le" => {
            let s = match args[0] {
                "Minus" => Sign::Minus,
                "NoSign" => Sign::NoSign,
                _ => Sign::Plus,
            };
            let digits: Vec<u8> = args.get(1).unwrap_or(&"").bytes().map(|c| c - b'0').collect();
            format!("{:?}", BigInt::from_radix_le(s, &digits, 2).map(|x| x.to_string()))
        }
        "bits" => format!("{}", a().bits()),
        _ => format!("UNKNOWN {}", name),
    }
}

fn main() {
    panic::set_hook(Box::new(|_| {}));
    let stdin = io::stdin();
    let out = io::stdout();
    for line in stdin.lock().lines() {
        let line = line.unwrap();
        let w: Vec<&str> = line.split_whitespace().collect();
        if w.is_empty() {
            continue;
        }
        let r = panic::catch_unwind(|| match w[0] {
            "op" => op(w[1], &big(w[2]), &big(w[3]), &big(w[4])),
            "lib" => lib(w[1], &w[2..]),
            _ => "UNKNOWN".to_string(),
        });
        let s = match r {
            Ok(s) => s,
            Err(e) => {
                let msg = e.downcast_ref::<String>().cloned().or_else(|| e.downcast_ref::<&str>().map(|s| s.to_string())).unwrap_or_default();
                format!("PANIC {}", msg)
            }
        };
        let mut o = out.lock();
        writeln!(o, "{}", s).unwrap();
        o.flush().unwrap();
    }
}
