//! Native replay for the comment stripper (C04/C05).  Line protocol:
//!   pp <hex of utf-8 text>  ->  "Ok <hex of output>" | "Err <start> <end> <file_id> <category>" | "PANIC <msg>"
use std::io::{self, BufRead, Write};
use std::panic;

fn unhex(s: &str) -> Vec<u8> {
    (0..s.len() / 2).map(|i| u8::from_str_radix(&s[2 * i..2 * i + 2], 16).unwrap()).collect()
}

fn hex(b: &[u8]) -> String {
    b.iter().map(|x| format!("{:02x}", x)).collect()
}

fn pp(text: &str) -> String {
    match parser::preprocess(text, 7) {
        Ok(out) => format!("Ok {}", hex(out.as_bytes())),
        Err(report) => {
            let labels = report.primary();
            if labels.is_empty() {
                return format!("Err - - - {}", report.category());
            }
            let l = &labels[0];
            format!("Err {} {} {} {}", l.range.start, l.range.end, l.file_id, report.category())
        }
    }
}

fn main() {
    panic::set_hook(Box::new(|_| {}));
    let stdin = io::stdin();
    let out = io::stdout();
    for line in stdin.lock().lines() {
        let line = line.unwrap();
        let w: Vec<&str> = line.split_whitespace().collect();
        if w.is_empty() {
            continue;
        }
        let r = panic::catch_unwind(|| match w[0] {
            "pp" => {
                let bytes = unhex(w.get(1).unwrap_or(&""));
                match String::from_utf8(bytes) {
                    Ok(s) => pp(&s),
                    Err(_) => "BADUTF8".to_string(),
                }
            }
            _ => "UNKNOWN".to_string(),
        });
        let s = match r {
            Ok(s) => s,
            Err(e) => {
                let msg = e.downcast_ref::<String>().cloned().or_else(|| e.downcast_ref::<&str>().map(|s| s.to_string())).unwrap_or_default();
                format!("PANIC {}", msg)
            }
        };
        let mut o = out.lock();
        writeln!(o, "{}", s).unwrap();
        o.flush().unwrap();
    }
}
