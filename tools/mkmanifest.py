#!/usr/bin/env python3
"""Regenerates MANIFEST.json from the table below (single source of truth for what is claimed)."""
import json, os
ROOT = os.path.dirname(os.path.dirname(os.path.abspath(__file__)))
props = [json.loads(l) for l in open(os.path.join(ROOT, 'properties.jsonl'))]

MIRSYM = "symbolic execution of rustc MIR + z3 (SMT), counterexamples replayed natively"
TB = "Trusted: rustc MIR printer (nightly), the MIR interpreter, library models (conformance-tested against the real library on every run), the oracle, z3. "

CHECKS = {
 'C16': dict(
   text="Bounded symbolic execution of the MIR of every function in modular_arithmetic.rs: for all a,b in [0,p) of the three real primes each result equals the documented Circom semantics, is canonical, undefined cases are Err, and no panic or unbounded big-integer work is reachable (also for out-of-field operands < 2^256). Solver verdict over all operands, not sampling.",
   note=TB + "mod_inverse/modpow/bitwise ops on Z are shared uninterpreted symbols in code and oracle. Quick tier: complement_256 for operands < 2^16 plus boundary classes; thorough: every bit length, plus small primes.",
   ref="DESIGN.md §3 C16"),
 'C03': dict(
   text="The real `main` of the cli crate and the real CachedStdoutWriter/StdoutWriter/SarifWriter executed symbolically from MIR, with argument parsing, the analysis runner, terminal rendering and SARIF serialisation replaced by recording stubs: for every --level, every set of user files, several --allow lists, SARIF on/off and every shape of <=2 (thorough 3) offered reports, a report is displayed iff level >= --level, id not allowed and not located solely in included files; displayed exactly once in order; exit status 0 iff nothing displayed; summary line equals the count; the SARIF writer receives exactly the displayed reports. Kani proves MessageCategory's order is the severity order. Counterexamples are replayed against the real binary on a generated project.",
   note=TB + "Stubs listed in the evidence. Outside: codespan rendering, serde_sarif serialisation and SARIF field conversion, what the passes find. Report conservation through the AnalysisRunner is checked by the runner harness when listed in the evidence bounds.",
   ref="DESIGN.md §3 C03", engine='kani+mirsym', technique="symbolic execution of rustc MIR (main + writers) with z3, Kani/CBMC for the category order; counterexamples replayed against the real binary"),
 'C01': dict(
   text="Partial: the union of the panic / overflow / bounds / unbounded-work obligations of kernels that user text reaches directly, all executed symbolically from MIR: the semantic actions of the literal tokens of the grammar (decimal, hexadecimal, version component) on every token text of length <= 24 matching the token's regular expression read from lang.lalrpop; the comment stripper on every string of <= 5 Unicode chars; every field-arithmetic function on all literal operands < 2^256 (no panic, no 2^k-sized computation); value publishing and the operator table; CFG lifting + dominator tree on every skeleton with <= 3 statements. Lexer counterexamples are replayed with the real binary.",
   note=TB + "This is NOT a claim about the whole pipeline: the LALR automaton and the other grammar actions, desugaring, IR-lifting catch-all arms, include handling, stack depth, memory and wall-clock time are outside (no solver-based encoding of them is within reach of the engine).",
   ref="DESIGN.md §3 C01"),
 'C02': dict(
   text="check_compiler_version executed symbolically from MIR for every version triple (accepted iff major equal and (minor,patch) <= supported, otherwise an error-level report; no pragma => one warning), plus the C03 main/writer harness specialised to error-level reports: every error offered to the writer is displayed at every --level unless allowed, and then the exit status is non-zero; 'No issues found.' only when nothing was displayed.",
   note=TB + "Partial: that the parser/desugarer/lifter actually produce a report for each failure class is outside this check (needs the pipeline); file-system errors are represented by a location-less error report offered to the writer.",
   ref="DESIGN.md §3 C02"),
 'C18': dict(
   text="Partial (the tuple half): remove_tuples_from_statement / remove_tuple_from_expression / separate_tuple_for_log_call and the ContainsExpression traversals executed from MIR on 18 statement slots x 13 expression shapes x {tuple, anonymous component} (468 combinations; the index is a solver variable): the remover returns Err or a statement in which an independent walker finds no tuple anywhere, and contains_tuple / contains_anonymous_component answer true iff the walker finds one (so functions containing them are rejected wherever they occur). Counterexamples are replayed with the real binary.",
   note=TB + "Precondition of the remover respected: anonymous components are expanded before it runs. Outside: anonymous-component expansion (needs template signatures) and the equivalence of the expansion with the hand-written form; deeper nestings.",
   ref="DESIGN.md §3 C18"),
 'C19': dict(
   text="Partial (FileStack): FileStack::{new, add_libraries, add_files, add_include, include_library, take_next, is_user_input} executed from MIR over an abstract file system (fs::canonicalize = arbitrary symbolic partial map from spellings to 3 canonical files, identity on canonical paths): from an arbitrary state whose stack holds canonical paths, take_next yields only unvisited paths, marks exactly the yielded one and shrinks the stack (=> each file at most once, cycles and diamonds terminate); add_include preserves the invariant (pushes canonical paths only) and a failed include is located at the include statement; FileStack::new with no library / a library directory / a library file / both: every .circom input that cannot be read is reported, the initial stack is exactly the readable named inputs in canonical form (nothing else is parsed unless it is included), and is_user_input holds iff the path is the canonical path of a named input (a library file is never a user input).",
   note=TB + "The file-system stub is the assumption. Outside: real path spelling and symlinks, directories as inputs, that parse_files uses the stack as intended, findings for included definitions (C03 filter clause).",
   ref="DESIGN.md §3 C19"),
 'C20': dict(
   text="Cfg::propagate_values and Cfg::propagate_degrees (and the real block/statement/expression rules below them) executed symbolically from MIR on three small SSA IR graphs (straight line, branch with phi, loop with phi cycle; template and function; symbolic literals) with the clock stubbed to arbitrary non-decreasing durations, so the pass at which the 10 s box fires is a solver variable: on every path the function returns normally, no rule runs after the bail-out, and the annotations at return are exactly those present when the clock was read. With the one-step soundness of every rule from any sound state (C06-X/C07-X) every cut point is sound by induction.",
   note=TB + "The clock stub is the assumption (elapsed() returns any non-decreasing duration). Counterexamples cannot be replayed natively (the clock is not controllable without rewriting source lines); they are reported from the deterministic engine run. Outside: wall-clock behaviour, termination of the un-cut fixpoint, graphs other than the three shapes.",
   ref="DESIGN.md §3 C20"),
 'C17': dict(
   text="Partial: the real AnalysisRunner (analyze_*, cache_*, take_*, replace_*, report caches, name listing) executed symbolically from MIR with stubbed CFG generation, passes and writer, for every order in which definitions are stored/analysed and every look-up pattern: on each order the written multiset equals one order-independent oracle (each finding of a user-file definition exactly once), so the displayed multiset does not depend on definition order or on which definition looked which other up first.",
   note=TB + "Outside: hash-map iteration orders inside the analysis passes, SSA version naming across runs, order of files on the command line, effects of unrelated extra definitions beyond the bound (2/3 definitions).",
   ref="DESIGN.md §3 C17"),
 'C08': dict(
   text="The whole find_signal_assignments pass executed symbolically from MIR on harness-built IR: <=2 (thorough 3) statements whose kind (<--, <==, ===, local =), assigned signal, expression shape and rhs degree knowledge (unknown or any range) are symbolic, all definition types; variable-use caches filled by the real cache_variable_use. Decided: one finding per `<--` statement and none otherwise, none for functions/custom templates, each anchored at its statement and naming the assigned signal, `unnecessary` iff the rhs degree is known and at most quadratic, otherwise `signal assignment` whose secondary locations are exactly the constraints mentioning the signal. Counterexamples are replayed through the real parser/lifter/passes on generated source.",
   note=TB + "Partial: tuple / anonymous-component desugaring and IR lifting are outside (statements are built in IR form); array-element and component-port targets are outside the bound.",
   ref="DESIGN.md §3 C08"),
 'C10': dict(
   text="Partial. (scope) ensure_unique_variables with its DeclarationEnvironment and the scoped RawEnvironment executed from MIR on every program of <=4 (thorough 5) items - declarations, reads and assignments of two names (one also a parameter), at most one array declaration `var n[m]` whose size expression reads a name, in arbitrarily nested blocks; the program index is a solver variable: after renaming all declarations carry distinct names, every use carries the name of the innermost preceding visible declaration (textbook block-scoping oracle), and a shadowing report is produced for exactly the redeclarations of a visible name with the shadowed declaration as secondary location. (keys) the SSA version environment with SYMBOLIC identifier strings: the solver searches for two different (name, suffix) pairs sharing a version counter (e.g. `x`+suffix `0` vs `x_0`); fresh versions; scope exit restores the version current at entry. (split) `name` / `name.N` are split back into name and suffix.",
   note=TB + "Outside: the statement/expression traversal of ssa_impl.rs that applies the keys (C14 part 2), for-loop scoping as produced by the parser, longer identifiers, repeated parameter names.",
   ref="DESIGN.md §3 C10"),
 'C11': dict(
   text="The real code from MIR with symbolic inputs: (a) primes and bit sizes for a symbolic curve; (b) Curve::from_str on every ASCII string of length 0..10; (c) the two template tables equal the table in doc/analysis_passes.md and find_bn254_specific_circuits flags `c = Name(x)` iff the documented table marks (name, curve), for the 26 names plus near misses and a symbolic curve; (d) find_nonstrict_binary_conversion flags Num2Bits/Bits2Num unless BN254/template/component with a known size n < 254, for ALL integers n; (e) the whole find_unconstrained_less_than pass on a 4-statement IR: an input counts as range-checked by Num2Bits(k) iff 2^k-1 <= p/2 for the curve, for ALL integers k. Counterexamples are replayed through the real parser, lifter and passes.",
   note=TB + "Oracle primes are the documented scalar field orders; the threshold K(p) is computed with exact integers. The value knowledge attached to size arguments is assumed sound (C06). Outside: non-ASCII curve names, clap's own parsing.",
   ref="DESIGN.md §3 C11"),
 'C12': dict(
   text="The real CFG lifter (build_basic_blocks, visit_statement, complete_basic_block, NonEmptyVec, BasicBlock) and DominatorTree::new executed from MIR on every statement skeleton with at most 4 (thorough 5) statements - leaf | if | if-else | while, braced or bare bodies, empty blocks, any nesting; the shape index is a solver variable, one path per shape - with leaf lifting stubbed by tokens: entry without predecessor, reachability, mirrored edge sets, branch last, targets existing and in the successor set, successor counts, dominance respects index order, loop depth per statement; the dominator tree's own assertions hold. Counterexamples are replayed on the real parser + lifter (same checker on the natively built graph).",
   note=TB + "Bounded exhaustive: the space of shapes is finite and covered completely. Outside: for/compound-assignment expansion in the parser, real leaf lifting, SSA, larger programs.",
   ref="DESIGN.md §3 C12/C13"),
 'C13': dict(
   text="Same engine run as C12 with `return` leaves: for every skeleton with at most 3 (thorough 4) statements and every sequence of <= 6 (8) symbolic branch/loop decisions (the solver forks on each), the statements a structured interpreter of the source executes up to its first return are exactly those met by walking the produced graph from the entry with the same decisions. Counterexamples are replayed on the real parser + lifter.",
   note=TB + "Outside: for/compound-assignment expansion (ast_shortcuts), real leaf lifting, longer decision sequences, larger programs.",
   ref="DESIGN.md §3 C12/C13"),
 'C14': dict(
   text="Two parts. (1) The generic SSA driver (insert_phi_statements, insert_ssa_variables, insert_ssa_variables_impl) and DominatorTree::new executed from MIR with the SSAConfig types bound to harness models whose edge sets and written-variable sets are symbolic: for every rooted digraph on <=3 nodes with 2 variables (4 nodes with 1 variable) a phi for v is placed in block j iff j is in the iterated dominance frontier of the blocks writing v (oracle by paths) and at most once; renaming visits every block once, after its immediate dominator, with balanced scopes whose depth equals the dominator-tree depth; successor phis are updated exactly once right after each block. (2) The real conversion - real build_basic_blocks, DominatorTree, propagate_types / cache_variable_use, ssa_impl::Environment, the driver instantiated with the real Config (variables_written, new_phi_statement, is_phi_statement_for, ensure_phi_argument, insert_ssa_variables, visit_expression) and update_declarations - executed from MIR on every structured program (if / if-else / while) with <=4 (thorough 5) statements over an alphabet of assignments, increments, reads, element-wise array updates and a signal assignment on a parameter and a suffixed local whose identifier characters are solver variables (so `shadowing variable of the same name` vs `unrelated name` is the solver's choice): conversion succeeds when every read is definitely assigned; original statements preserved in order behind the phis; phis only at block heads; locals versioned and signals not; at most one definition per version; every read dominated by its definition (phi arguments defined on an incoming path); along every path with <=6 branch decisions each read names the version most recently assigned on that path and the incoming version is an argument of each phi; every version is covered by the re-issued declarations.",
   note=TB + "Leaf lifting (AST leaf -> IR statement) is a harness stub that returns harness-built IR statements; part 2 replays steps 1-3 of Cfg::into_ssa in source order (their presence in into_ssa's MIR is checked on every run). The audit oracle is validated on every run against the real pipeline (native ssadump of three fixed programs). Counterexamples are reported from the deterministic engine run and replayed by re-executing the single program. Outside: other expression forms (calls, inline arrays, switch, component accesses), more statements, steps 4-5 of into_ssa (C06/C07).",
   ref="DESIGN.md §3 C14"),
 'C15': dict(
   text="Symbolic execution of the MIR of DominatorTree::new / compute_dominators / compute_immediate_dominators / compute_dominance_frontier with the generic node type bound to a harness node whose predecessor set is a symbolic subset of the nodes: for every rooted digraph within the node bound (quick <=4, thorough <=5 nodes; self loops and irreducible graphs included) the dominator sets, immediate dominators, dominator-tree children and dominance frontiers equal their path definitions and the three internal assertions are unreachable.",
   note=TB + "HashSet<usize> is modelled as a bit set whose iteration order is ascending (order sensitivity is C17's subject). Graphs with more nodes are outside the claim.",
   ref="DESIGN.md §3 C15"),
 'C07': dict(
   text="Two engines. Kani (CBMC) over the compiled Degree/DegreeRange code: all 20 infix and 3 prefix transfer functions and their end-point lifting to ranges are sound w.r.t. the least sound degree bound and monotone, Ord is the rank order, predicates/inf/contains are right - the whole finite space in one query each. mirsym over the MIR of the private opcode dispatch (ExpressionInfixOpcode/PrefixOpcode::propagate_degrees) with symbolic opcode and ranges: unknown operand => no claim, otherwise claimed end >= least sound bound for every operand degree in the ranges.",
   note=TB + "Kani/CBMC trusted for the kernel harnesses. Reference = least sound bound (+,-: max; *: sum capped; / by constant keeps the degree; unary -: identity; anything else constant iff all operands constant). Outside: that an IR expression denotes the polynomial assumed; fixpoint convergence; IR node rules other than the opcode dispatch unless listed in the evidence.",
   ref="DESIGN.md §3 C07", engine='kani+mirsym', technique="Kani/CBMC bounded model checking of the compiled enum kernels + symbolic execution of rustc MIR with z3; counterexamples replayed natively"),
 'C06': dict(
   text="Symbolic execution of the MIR of the operator evaluation table (ExpressionInfixOpcode/PrefixOpcode::propagate_values, down into circom_algebra) for every opcode, every operand kind (field element, boolean, unknown) and all operand values in the field of each of the three curves: any value produced equals Circom's field semantics (independent oracle), ill-typed or unknown operands and undefined operations produce no value, no panic is reachable.",
   note=TB + "Literals assumed canonical (< p). mod_inverse/modpow/bitwise ops are shared uninterpreted symbols. Outside: function calls and arrays (not propagated), phi completeness (C14), name uniqueness (C10); IR node rules only where listed in the evidence.",
   ref="DESIGN.md §3 C06"),
 'C05': dict(
   text="Symbolic execution of the MIR of parser_logic::preprocess on strings of n symbolic chars ranging over every Unicode scalar value (quick: n<=6, plus all-ASCII n<=8; thorough n<=8 / n<=10), compared with a co-executed textbook comment lexer: Ok iff every block comment is closed, output byte-for-byte equal to the input with comments blanked, Err iff unclosed.",
   note=TB + "Longer texts are outside the claim. What the grammar does with the stripped text is outside the claim. UnclosedCommentError::into_report is stubbed (argument captured).",
   ref="DESIGN.md §3 C05"),
 'C04': dict(
   text="Kernel only: from the same symbolic runs as C05, the stripper preserves every byte offset (so all later positions refer to the original text) and the label of the unclosed-comment error names the file read, lies inside the file, has start<=end on character boundaries and starts at the byte offset of the opener, for every string within the bound.",
   note=TB + "Partial: positions produced by the LALRPOP grammar actions, metas cloned onto desugared/SSA statements and SARIF conversion are outside this check.",
   ref="DESIGN.md §3 C04"),
}

NA_REASON = {
 'C09': "quantifies over executions of analysed programs with a perturbed assignment: needs the taint/side-effect/constraint passes (several thousand lines of HashMap/HashSet/trait-object code) plus a reference interpreter under the symbolic executor; beyond the engine's reach, and Kani cannot run hash-map code on this code base (measured, DESIGN.md §1)",
}

claimed = sorted(CHECKS)
checks = []
for pid in claimed:
    c = CHECKS[pid]
    checks.append({
        "property_id": pid, "quick_cmd": "./check %s --tier quick" % pid, "thorough_cmd": "./check %s --tier thorough" % pid,
        "evidence_file": "evidence/%s.json" % pid, "replay_cmd_template": "./check %s --replay {path}" % pid, "engine": c.get('engine', 'mirsym'),
        "level_claimed": {"category": "model_checking", "text": c['text'], "design_ref": c['ref']},
        "level_note": c['note'], "technique": c.get('technique', MIRSYM)})
m = {
 "version": 1, "setup_cmd": "./setup.sh",
 "hooks": {"guard": "cargo feature `verif` of crate circomspect-parser", "enable": "cargo build -p circomspect-parser --features verif (done by /verif/replay/vr_parser through its path dependency)",
           "baseline_off_cmd": "cd /repo && cargo test --workspace --no-fail-fast --offline", "source_commits": ["723e96b"], "add_only": True},
 "engines": [{"name": "kani", "path": "kani/", "serves_properties": ["C07"], "kind_free_text": "Kani 0.68 / CBMC 6.11 harness crate with a path dependency on /repo (rebuilt from the working tree)"},
             {"name": "mirsym", "path": "mirsym/", "serves_properties": [p for p in claimed if 'mirsym' in CHECKS[p].get('engine', 'mirsym')],
              "kind_free_text": "own symbolic executor over the rustc MIR of /repo's working tree (regenerated on every run), z3 back end, native replay of counterexamples"}],
 "checks": checks,
 "not_applicable": [{"property_id": p['id'], "reason": NA_REASON.get(p['id'], "no solver-based check built yet for this property (see DESIGN.md); not claimed")} for p in props if p['id'] not in CHECKS],
 "notes": "see DESIGN.md; known_findings.json lists fixed/open genuine defects",
}
json.dump(m, open(os.path.join(ROOT, 'MANIFEST.json'), 'w'), indent=1)
print('claimed', claimed)
