#!/bin/bash
# tools/seedcheck.sh <worktree> <seeddir>  : independent confirmation of a seeded change
#   pristine: demo passes;  patched: builds, existing suite passes, demo fails.  Prints CONFIRMED / REJECTED <why>.
wt=$1; sd=$2
export CARGO_NET_OFFLINE=true
cd $wt || exit 2
git checkout -q -- . ; git clean -fdq -e _seed -e target
run_tests() { cargo test --workspace --offline --no-fail-fast 2>&1 | grep -E "^test result|^test .* FAILED|error(\[|:)" ; }
demo_run() {
  if [ -f $sd/demo.sh ]; then
    cargo build -q --offline -p circomspect 2>/dev/null || { echo "BUILDFAIL"; return 3; }
    ( cd $sd && CIRCOMSPECT=$wt/target/debug/circomspect bash ./demo.sh $wt/target/debug/circomspect >/dev/null 2>&1 ); return $?
  else
    git apply $sd/demo.diff || return 3
    out=$(cargo test --workspace --offline --no-fail-fast 2>&1 | grep -E "^test .* FAILED|^error" | head -5)
    git apply -R $sd/demo.diff
    git clean -fdq -e _seed -e target
    [ -z "$out" ]; return $?
  fi
}
demo_run; r0=$?
[ $r0 -ne 0 ] && { echo "REJECTED demo does not pass on the pristine tree ($r0)"; exit 1; }
git apply $sd/patch.diff || { echo "REJECTED patch does not apply"; exit 1; }
fails=$(run_tests | grep -E "FAILED|^error" | head -5)
[ -n "$fails" ] && { echo "REJECTED existing suite fails with the patch: $fails"; git checkout -q -- .; exit 1; }
demo_run; r1=$?
git checkout -q -- . ; git clean -fdq -e _seed -e target
[ $r1 -eq 0 ] && { echo "REJECTED demo still passes with the patch"; exit 1; }
[ $r1 -eq 3 ] && { echo "REJECTED demo could not be built with the patch"; exit 1; }
echo "CONFIRMED"
