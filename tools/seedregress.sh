#!/bin/bash
# re-run the primary check of every stored seed (or of the seeds given as arguments) against the seed applied to /repo;
# prints one line per seed.  /repo must be clean; it is restored after every seed.  Evidence files are restored at the end.
cd "$(dirname "$0")/.."
seeds="$@"; [ -z "$seeds" ] && seeds=$(ls seeded)
tmp=$(mktemp -d); cp evidence/*.json $tmp/
for sd in $seeds; do
  id=$(python3 -c "import json; print(json.load(open('seeded/$sd/meta.json'))['property'])")
  if ! git -C /repo apply /verif/seeded/$sd/patch.diff 2>/dev/null; then echo "$sd $id PATCH-DOES-NOT-APPLY"; continue; fi
  out=$(./check $id 2>/dev/null | grep -E '^(VIOLATION|OK|INCONCLUSIVE)' | head -1 | cut -c1-60)
  git -C /repo checkout -- . ; git -C /repo clean -fdq -e target
  echo "$sd $id :: $out"
done
cp $tmp/*.json evidence/; rm -rf $tmp
