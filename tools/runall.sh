#!/bin/bash
# run every claimed quick check on the current tree; prints one status line per property
cd "$(dirname "$0")/.."
tier=${1:-quick}
shift
ids="$@"
[ -z "$ids" ] && ids=$(python3 -c "import json; print(' '.join(c['property_id'] for c in json.load(open('MANIFEST.json'))['checks']))")
for id in $ids; do
  s=$(date +%s)
  out=$(./check $id --tier $tier 2>/dev/null); rc=$?
  out=$(echo "$out" | tail -3)
  echo "$id rc=$rc $(( $(date +%s) - s ))s :: $(echo "$out" | tail -1 | cut -c1-200)"
done
python3-vt - <<'PY'
import json, jsonschema, glob
m = json.load(open('MANIFEST.json'))
jsonschema.validate(m, json.load(open('/root/.vp/MANIFEST.schema.json')))
s = json.load(open('/root/.vp/EVIDENCE.schema.json'))
for c in m['checks']:
    jsonschema.validate(json.load(open(c['evidence_file'])), s)
print('manifest + evidence valid')
PY
