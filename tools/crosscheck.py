#!/usr/bin/env python3
"""Cross-check a sample of the obligations z3 5.1 decided with two other solvers.

  MIRSYM_DUMP_SMT=<dir> ./check <ID>         dumps every 50th query (SMT-LIB2, with z3's verdict) into <dir>
  python3 tools/crosscheck.py <dir>          runs /usr/bin/z3 (4.8.12) and cvc5 1.0 on each file

A file counts as AGREE when a solver returns the same sat/unsat verdict, UNKNOWN when it gives up within the
time limit (non-linear integer arithmetic is incomplete in every solver), DISAGREE otherwise.  Exit 1 on any DISAGREE.
"""
import sys, os, glob, subprocess, collections

def run(cmd, path, t=20):
    try:
        r = subprocess.run(cmd + [path], capture_output=True, text=True, timeout=t)
        out = (r.stdout + r.stderr)
        if '(error' in out: return 'error'
        for line in out.split('\n'):
            if line.strip() in ('sat', 'unsat', 'unknown'): return line.strip()
        return 'error'
    except subprocess.TimeoutExpired:
        return 'unknown'

def main(d):
    tally = collections.Counter(); bad = []
    files = sorted(glob.glob(os.path.join(d, '*.smt2')))
    for f in files:
        want = open(f).readline().split(':')[-1].strip()
        for name, cmd in (('z3-4.8.12', ['/usr/bin/z3', '-T:20']), ('cvc5-1.0', ['cvc5', '--lang', 'smt2', '--tlimit=20000'])):
            got = run(cmd, f)
            if got == want: tally[name, 'agree'] += 1
            elif got in ('unknown', 'error'): tally[name, got] += 1
            else: tally[name, 'DISAGREE'] += 1; bad.append((f, name, want, got))
    print('files', len(files)); 
    for k in sorted(tally): print(k, tally[k])
    for b in bad[:10]: print('DISAGREE', b)
    return 1 if bad else 0

if __name__ == '__main__': sys.exit(main(sys.argv[1]))
